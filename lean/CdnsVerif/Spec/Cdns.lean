/-
  RFC 8618 (C-DNS) – independent reader / validator over the RFC 8949 syntax tree.
  Transcribed from the RFC's CDDL (map keys, bit assignments), NOT from the library.
  `interpret` either rejects a file (with the reason) or renders it in the canonical text
  form the correspondence harness uses for the library's own reader, so the two can be
  compared character for character:

    F{maj=..,min=..[,priv=..]}P{..}P{..} B{pi=..[;st=..];Q{..};..;A{..};..;M{..}} .. EOF

  Checks performed (C02): file is `[ "C-DNS", preamble, [blocks] ]`; mandatory members
  present; every member has the CBOR type the CDDL gives it; every index stored in an item
  or a table entry addresses an existing entry of the right table; block-parameters index in
  range.  Unknown map keys are ignored (RFC 8618 §7.1).  `unreachable` counts table entries
  no stored item refers to (C04).
-/
import CdnsVerif.Spec.CborParse
namespace CdnsVerif.Spec.Cdns
open CdnsVerif.Spec.Cbor

/-! ### the RFC's key and bit tables (RFC 8618 §7 / Appendix A) -/

def rfcKeys : List (String × List (String × Int)) := [
  ("FilePreambleMapIndex", [("major_format_version", 0), ("minor_format_version", 1), ("private_version", 2), ("block_parameters", 3)]),
  ("BlockParametersMapIndex", [("storage_parameters", 0), ("collection_parameters", 1)]),
  ("StorageParametersMapIndex", [("ticks_per_second", 0), ("max_block_items", 1), ("storage_hints", 2), ("opcodes", 3),
    ("rr_types", 4), ("storage_flags", 5), ("client_address_prefix_ipv4", 6), ("client_address_prefix_ipv6", 7),
    ("server_address_prefix_ipv4", 8), ("server_address_prefix_ipv6", 9), ("sampling_method", 10), ("anonymization_method", 11)]),
  ("CollectionParametersMapIndex", [("query_timeout", 0), ("skew_timeout", 1), ("snaplen", 2), ("promisc", 3), ("interfaces", 4),
    ("server_address", 5), ("vlan_ids", 6), ("filter", 7), ("generator_id", 8), ("host_id", 9)]),
  ("StorageHintsMapIndex", [("query_response_hints", 0), ("query_response_signature_hints", 1), ("rr_hints", 2), ("other_data_hints", 3)]),
  ("BlockMapIndex", [("block_preamble", 0), ("block_statistics", 1), ("block_tables", 2), ("query_responses", 3),
    ("address_event_counts", 4), ("malformed_messages", 5)]),
  ("BlockPreambleMapIndex", [("earliest_time", 0), ("block_parameters_index", 1)]),
  ("BlockStatisticsMapIndex", [("processed_messages", 0), ("qr_data_items", 1), ("unmatched_queries", 2),
    ("unmatched_responses", 3), ("discarded_opcode", 4), ("malformed_items", 5)]),
  ("BlockTablesMapIndex", [("ip_address", 0), ("classtype", 1), ("name_rdata", 2), ("qr_sig", 3), ("qlist", 4), ("qrr", 5),
    ("rrlist", 6), ("rr", 7), ("malformed_message_data", 8)]),
  ("ClassTypeMapIndex", [("type", 0), ("class_", 1)]),
  ("QueryResponseSignatureMapIndex", [("server_address_index", 0), ("server_port", 1), ("qr_transport_flags", 2), ("qr_type", 3),
    ("qr_sig_flags", 4), ("query_opcode", 5), ("qr_dns_flags", 6), ("query_rcode", 7), ("query_classtype_index", 8),
    ("query_qdcount", 9), ("query_ancount", 10), ("query_nscount", 11), ("query_arcount", 12), ("query_edns_version", 13),
    ("query_udp_size", 14), ("query_opt_rdata_index", 15), ("response_rcode", 16)]),
  ("QuestionMapIndex", [("name_index", 0), ("classtype_index", 1)]),
  ("RrMapIndex", [("name_index", 0), ("classtype_index", 1), ("ttl", 2), ("rdata_index", 3)]),
  ("MalformedMessageDataMapIndex", [("server_address_index", 0), ("server_port", 1), ("mm_transport_flags", 2), ("mm_payload", 3)]),
  ("QueryResponseMapIndex", [("time_offset", 0), ("client_address_index", 1), ("client_port", 2), ("transaction_id", 3),
    ("qr_signature_index", 4), ("client_hoplimit", 5), ("response_delay", 6), ("query_name_index", 7), ("query_size", 8),
    ("response_size", 9), ("response_processing_data", 10), ("query_extended", 11), ("response_extended", 12)]),
  ("ResponseProcessingDataMapIndex", [("bailiwick_index", 0), ("processing_flags", 1)]),
  ("QueryResponseExtendedMapIndex", [("question_index", 0), ("answer_index", 1), ("authority_index", 2), ("additional_index", 3)]),
  ("AddressEventCountMapIndex", [("ae_type", 0), ("ae_code", 1), ("ae_address_index", 2), ("ae_transport_flags", 3), ("ae_count", 4)]),
  ("MalformedMessageMapIndex", [("time_offset", 0), ("client_address_index", 1), ("client_port", 2), ("message_data_index", 3)]),
  -- storage-hint bit masks
  ("QueryResponseHintsMask", [("time_offset", 1), ("client_address_index", 2), ("client_port", 4), ("transaction_id", 8),
    ("qr_signature_index", 16), ("client_hoplimit", 32), ("response_delay", 64), ("query_name_index", 128), ("query_size", 256),
    ("response_size", 512), ("response_processing_data", 1024), ("query_question_sections", 2048),
    ("query_answer_sections", 4096), ("query_authority_sections", 8192), ("query_additional_sections", 16384),
    ("response_answer_sections", 32768), ("response_authority_sections", 65536), ("response_additional_sections", 131072)]),
  ("QueryResponseSignatureHintsMask", [("server_address_index", 1), ("server_port", 2), ("qr_transport_flags", 4), ("qr_type", 8),
    ("qr_sig_flags", 16), ("query_opcode", 32), ("qr_dns_flags", 64), ("query_rcode", 128), ("query_classtype_index", 256),
    ("query_qdcount", 512), ("query_ancount", 1024), ("query_nscount", 2048), ("query_arcount", 4096),
    ("query_edns_version", 8192), ("query_udp_size", 16384), ("query_opt_rdata_index", 32768), ("response_rcode", 65536)]),
  ("RrHintsMask", [("ttl", 1), ("rdata_index", 2)]),
  ("OtherDataHintsMask", [("malformed_messages", 1), ("address_event_counts", 2)])
]

/-- implementation-specific members of QueryResponse (negative keys = private use) -/
def privateQrKeys : List (String × Int) := [("asn", -1), ("country_code", -2), ("round_trip_time", -3)]

/-! ### rendering helpers -/

def hexDigit (n : Nat) : Char := if n < 10 then Char.ofNat (48 + n) else Char.ofNat (87 + n)
def xs (bs : Bytes) : String :=
  String.ofList ('x' :: bs.foldr (fun b acc => hexDigit (b / 16 % 16) :: hexDigit (b % 16) :: acc) [])

abbrev R := Except String
abbrev KV := List (Int × Item)

def get? (m : KV) (k : Int) : Option Item := (m.find? (·.1 == k)).map (·.2)

def asMapE (what : String) (i : Item) : R KV :=
  match i.asMap with | some m => pure m | none => throw s!"{what}: not an integer-keyed map (or duplicate keys)"
def asArrE (what : String) (i : Item) : R (List Item) :=
  match i.asArray with | some m => pure m | none => throw s!"{what}: not an array"
def asUintE (what : String) (i : Item) : R Nat :=
  match i.asUint with | some m => pure m | none => throw s!"{what}: not an unsigned integer"
def asIntE (what : String) (i : Item) : R Int :=
  match i.asInt with | some m => pure m | none => throw s!"{what}: not an integer"
def asBytesE (what : String) (i : Item) : R Bytes :=
  match i.asBytes with | some m => pure m | none => throw s!"{what}: not a byte string"
def asTextE (what : String) (i : Item) : R Bytes :=
  match i.asText with | some m => pure m | none => throw s!"{what}: not a text string"

def optU (what : String) (m : KV) (k : Int) : R (Option Nat) :=
  match get? m k with | some i => do pure (some (← asUintE what i)) | none => pure none
def reqU (what : String) (m : KV) (k : Int) : R Nat :=
  match get? m k with | some i => asUintE what i | none => throw s!"{what}: mandatory member {k} missing"
def optI (what : String) (m : KV) (k : Int) : R (Option Int) :=
  match get? m k with | some i => do pure (some (← asIntE what i)) | none => pure none
def optT (what : String) (m : KV) (k : Int) : R (Option Bytes) :=
  match get? m k with | some i => do pure (some (← asTextE what i)) | none => pure none
def optB (what : String) (m : KV) (k : Int) : R (Option Bytes) :=
  match get? m k with | some i => do pure (some (← asBytesE what i)) | none => pure none

def fld (k : String) (v : Option String) : List String := match v with | some v => [s!"{k}={v}"] | none => []
def fldN (k : String) (v : Option Nat) : List String := fld k (v.map toString)
def fldI (k : String) (v : Option Int) : List String := fld k (v.map toString)
def fldX (k : String) (v : Option Bytes) : List String := fld k (v.map xs)
def commas (l : List String) : String := ",".intercalate l
def dots (l : List Nat) : String := ".".intercalate (l.map toString)

/-! ### file preamble -/

structure Params where
  tps : Nat
  dump : String

def readCollection (i : Item) : R (List String) := do
  let m ← asMapE "collection-parameters" i
  let qt ← optU "query-timeout" m 0
  let st ← optU "skew-timeout" m 1
  let sl ← optU "snaplen" m 2
  let pr ← match get? m 3 with
    | some b => match b.asBool with
      | some v => pure (some v)
      | none => throw "promisc: not a boolean"
    | none => pure none
  let ifs ← match get? m 4 with
    | some a => do (← asArrE "interfaces" a).mapM (asTextE "interface")
    | none => pure []
  let sas ← match get? m 5 with
    | some a => do (← asArrE "server-addresses" a).mapM (asBytesE "server-address")
    | none => pure []
  let vl ← match get? m 6 with
    | some a => do (← asArrE "vlan-ids" a).mapM (asUintE "vlan-id")
    | none => pure []
  let fl ← optT "filter" m 7
  let gi ← optT "generator-id" m 8
  let hi ← optT "host-id" m 9
  pure (["cp=1"] ++ fldN "cqt" qt ++ fldN "cst" st ++ fldN "csl" sl ++ fld "cpr" (pr.map fun b => if b then "1" else "0")
    ++ (if ifs.isEmpty then [] else [s!"cif={"+".intercalate (ifs.map xs)}"])
    ++ (if sas.isEmpty then [] else [s!"csa={"+".intercalate (sas.map xs)}"])
    ++ (if vl.isEmpty then [] else [s!"cvl={dots vl}"])
    ++ fldX "cfl" fl ++ fldX "cgi" gi ++ fldX "chi" hi)

def readBlockParameters (i : Item) : R Params := do
  let m ← asMapE "block-parameters" i
  let spI ← match get? m 0 with | some x => pure x | none => throw "block-parameters: storage-parameters missing"
  let sp ← asMapE "storage-parameters" spI
  let tps ← reqU "ticks-per-second" sp 0
  let mx ← reqU "max-block-items" sp 1
  let shI ← match get? sp 2 with | some x => pure x | none => throw "storage-parameters: storage-hints missing"
  let sh ← asMapE "storage-hints" shI
  let qrh ← reqU "query-response-hints" sh 0
  let sigh ← reqU "query-response-signature-hints" sh 1
  let rrh ← reqU "rr-hints" sh 2
  let odh ← reqU "other-data-hints" sh 3
  let opc ← match get? sp 3 with
    | some a => do (← asArrE "opcodes" a).mapM (asUintE "opcode")
    | none => throw "storage-parameters: opcodes missing"
  let rrt ← match get? sp 4 with
    | some a => do (← asArrE "rr-types" a).mapM (asUintE "rr-type")
    | none => throw "storage-parameters: rr-types missing"
  let sfl ← optU "storage-flags" sp 5
  let cp4 ← optU "client-address-prefix-ipv4" sp 6
  let cp6 ← optU "client-address-prefix-ipv6" sp 7
  let sp4 ← optU "server-address-prefix-ipv4" sp 8
  let sp6 ← optU "server-address-prefix-ipv6" sp 9
  let sm ← optT "sampling-method" sp 10
  let am ← optT "anonymization-method" sp 11
  let cp ← match get? m 1 with | some c => readCollection c | none => pure []
  let fields := [s!"tps={tps}", s!"max={mx}", s!"qrh={qrh}", s!"sigh={sigh}", s!"rrh={rrh}", s!"odh={odh}",
    s!"opc={dots opc}", s!"rrt={dots rrt}"] ++ fldN "sfl" sfl ++ fldN "cp4" cp4 ++ fldN "cp6" cp6 ++ fldN "sp4" sp4
    ++ fldN "sp6" sp6 ++ fldX "sm" sm ++ fldX "am" am ++ cp
  pure { tps := tps, dump := "P{" ++ commas fields ++ "}" }

def readPreamble (i : Item) : R (String × List Params) := do
  let m ← asMapE "file-preamble" i
  let maj ← reqU "major-format-version" m 0
  let mn ← reqU "minor-format-version" m 1
  let pv ← optU "private-version" m 2
  let bpsI ← match get? m 3 with | some x => pure x | none => throw "file-preamble: block-parameters missing"
  let bps ← (← asArrE "block-parameters" bpsI).mapM readBlockParameters
  if bps.isEmpty then throw "file-preamble: block-parameters empty"
  let head := "F{" ++ commas ([s!"maj={maj}", s!"min={mn}"] ++ fldN "priv" pv) ++ "}"
  pure (head ++ String.join (bps.map (·.dump)), bps)

/-! ### block tables -/

structure Sig where
  sai : Option Nat
  sport : Option Nat
  tf : Option Nat
  qt : Option Nat
  sf : Option Nat
  op : Option Nat
  df : Option Nat
  qrc : Option Nat
  cti : Option Nat
  qd : Option Nat
  an : Option Nat
  ns : Option Nat
  ar : Option Nat
  ev : Option Nat
  us : Option Nat
  ordi : Option Nat
  rrc : Option Nat

structure RRe where
  name : Nat
  ct : Nat
  ttl : Option Nat
  rdata : Option Nat

structure MMD where
  sai : Option Nat
  sport : Option Nat
  tf : Option Nat
  pl : Option Bytes

structure Tables where
  ip : List Bytes := []
  ct : List (Nat × Nat) := []
  nr : List Bytes := []
  sig : List Sig := []
  qlist : List (List Nat) := []
  qrr : List (Nat × Nat) := []
  rrlist : List (List Nat) := []
  rr : List RRe := []
  mmd : List MMD := []

def tableOf (m : KV) (k : Int) (what : String) (f : Item → R α) : R (List α) :=
  match get? m k with
  | some a => do (← asArrE what a).mapM f
  | none => pure []

def readTables (i : Item) : R Tables := do
  let m ← asMapE "block-tables" i
  let ip ← tableOf m 0 "ip-address" (asBytesE "ip-address")
  let ct ← tableOf m 1 "classtype" fun x => do
    let c ← asMapE "classtype" x
    pure (← reqU "type" c 0, ← reqU "class" c 1)
  let nr ← tableOf m 2 "name-rdata" (asBytesE "name-rdata")
  let sig ← tableOf m 3 "qr-sig" fun x => do
    let s ← asMapE "qr-sig" x
    pure ({ sai := ← optU "server-address-index" s 0, sport := ← optU "server-port" s 1, tf := ← optU "qr-transport-flags" s 2,
            qt := ← optU "qr-type" s 3, sf := ← optU "qr-sig-flags" s 4, op := ← optU "query-opcode" s 5,
            df := ← optU "qr-dns-flags" s 6, qrc := ← optU "query-rcode" s 7, cti := ← optU "query-classtype-index" s 8,
            qd := ← optU "query-qdcount" s 9, an := ← optU "query-ancount" s 10, ns := ← optU "query-nscount" s 11,
            ar := ← optU "query-arcount" s 12, ev := ← optU "query-edns-version" s 13, us := ← optU "query-udp-size" s 14,
            ordi := ← optU "query-opt-rdata-index" s 15, rrc := ← optU "response-rcode" s 16 } : Sig)
  let qlist ← tableOf m 4 "qlist" fun x => do (← asArrE "qlist" x).mapM (asUintE "question index")
  let qrr ← tableOf m 5 "qrr" fun x => do
    let c ← asMapE "question" x
    pure (← reqU "name-index" c 0, ← reqU "classtype-index" c 1)
  let rrlist ← tableOf m 6 "rrlist" fun x => do (← asArrE "rrlist" x).mapM (asUintE "rr index")
  let rr ← tableOf m 7 "rr" fun x => do
    let c ← asMapE "rr" x
    pure ({ name := ← reqU "name-index" c 0, ct := ← reqU "classtype-index" c 1, ttl := ← optU "ttl" c 2,
            rdata := ← optU "rdata-index" c 3 } : RRe)
  let mmd ← tableOf m 8 "malformed-message-data" fun x => do
    let c ← asMapE "malformed-message-data" x
    pure ({ sai := ← optU "server-address-index" c 0, sport := ← optU "server-port" c 1, tf := ← optU "mm-transport-flags" c 2,
            pl := ← optB "mm-payload" c 3 } : MMD)
  pure { ip, ct, nr, sig, qlist, qrr, rrlist, rr, mmd }

def idx (what : String) (l : List α) (i : Nat) : R α :=
  match l[i]? with | some a => pure a | none => throw s!"{what}: index {i} out of range ({l.length} entries)"
def idxO (what : String) (l : List α) (i : Option Nat) : R (Option α) :=
  match i with | some i => do pure (some (← idx what l i)) | none => pure none

/-- every index stored in a table entry addresses an existing entry (checked for ALL entries,
    referenced or not) -/
def checkTables (t : Tables) : R Unit := do
  for s in t.sig do
    let _ ← idxO "qr-sig.server-address-index" t.ip s.sai
    let _ ← idxO "qr-sig.query-classtype-index" t.ct s.cti
    let _ ← idxO "qr-sig.query-opt-rdata-index" t.nr s.ordi
  for q in t.qrr do
    let _ ← idx "question.name-index" t.nr q.1
    let _ ← idx "question.classtype-index" t.ct q.2
  for l in t.qlist do
    for i in l do
      let _ ← idx "qlist entry" t.qrr i
  for r in t.rr do
    let _ ← idx "rr.name-index" t.nr r.name
    let _ ← idx "rr.classtype-index" t.ct r.ct
    let _ ← idxO "rr.rdata-index" t.nr r.rdata
  for l in t.rrlist do
    for i in l do
      let _ ← idx "rrlist entry" t.rr i
  for d in t.mmd do
    let _ ← idxO "malformed-message-data.server-address-index" t.ip d.sai

/-! ### records -/

/-- references collected while rendering (for the reachability report) -/
structure Refs where
  ip : List Nat := []
  ct : List Nat := []
  nr : List Nat := []
  sig : List Nat := []
  qlist : List Nat := []
  qrr : List Nat := []
  rrlist : List Nat := []
  rr : List Nat := []
  mmd : List Nat := []

def timeOf (earliest : Nat × Nat) (tps : Nat) (off : Nat) : R String := do
  if tps = 0 then throw "ticks-per-second is zero"
  let inst := earliest.1 * tps + earliest.2 + off
  pure s!"{inst / tps}.{inst % tps}"

def showRR (t : Tables) (name ct : Nat) (ttl : Option Nat) (rdata : Option Nat) : R String := do
  let n ← idx "name-index" t.nr name
  let c ← idx "classtype-index" t.ct ct
  let rd ← idxO "rdata-index" t.nr rdata
  let ttlS := match ttl with | some v => toString v | none => "-"
  let rdS := match rd with | some b => xs b | none => "-"
  pure s!"{xs n}~{c.1}~{c.2}~{ttlS}~{rdS}"

def showQList (t : Tables) (i : Nat) : R String := do
  let l ← idx "question-index" t.qlist i
  let rs ← l.mapM fun qi => do
    let q ← idx "qlist entry" t.qrr qi
    showRR t q.1 q.2 none none
  pure ("+".intercalate rs)

def showRRList (t : Tables) (i : Nat) : R String := do
  let l ← idx "rr-list index" t.rrlist i
  let rs ← l.mapM fun ri => do
    let r ← idx "rrlist entry" t.rr ri
    showRR t r.name r.ct r.ttl r.rdata
  pure ("+".intercalate rs)

def secField (k : String) (v : Option String) : List String :=
  match v with | some s => if s.isEmpty then [] else [s!"{k}={s}"] | none => []

def readExtended (t : Tables) (m : KV) (k : Int) (keys : List String) : R (List String × List Nat × List Nat) := do
  match get? m k with
  | none => pure ([], [], [])
  | some e => do
    let em ← asMapE "query-response-extended" e
    let qi ← optU "question-index" em 0
    let ai ← optU "answer-index" em 1
    let ui ← optU "authority-index" em 2
    let xi ← optU "additional-index" em 3
    let q ← match qi with | some i => do pure (some (← showQList t i)) | none => pure none
    let a ← match ai with | some i => do pure (some (← showRRList t i)) | none => pure none
    let u ← match ui with | some i => do pure (some (← showRRList t i)) | none => pure none
    let x ← match xi with | some i => do pure (some (← showRRList t i)) | none => pure none
    match keys with
    | [kq, ka, ku, kx] =>
      pure (secField kq q ++ secField ka a ++ secField ku u ++ secField kx x, qi.toList, ai.toList ++ ui.toList ++ xi.toList)
    | _ => throw "internal"

def readQR (t : Tables) (earliest : Nat × Nat) (tps : Nat) (i : Item) : R (String × Refs) := do
  let m ← asMapE "query-response" i
  let off ← optU "time-offset" m 0
  let ts ← match off with | some o => do pure (some (← timeOf earliest tps o)) | none => pure none
  let cai ← optU "client-address-index" m 1
  let cip ← idxO "client-address-index" t.ip cai
  let cport ← optU "client-port" m 2
  let tid ← optU "transaction-id" m 3
  let si ← optU "qr-signature-index" m 4
  let sg ← idxO "qr-signature-index" t.sig si
  let sigF ← match sg with
    | none => pure []
    | some s => do
      let sip ← idxO "server-address-index" t.ip s.sai
      let ct ← idxO "query-classtype-index" t.ct s.cti
      let ord ← idxO "query-opt-rdata-index" t.nr s.ordi
      pure (fldX "sip" sip ++ fldN "sport" s.sport ++ fldN "tf" s.tf ++ fldN "qt" s.qt ++ fldN "sf" s.sf ++ fldN "op" s.op
        ++ fldN "df" s.df ++ fldN "qrc" s.qrc ++ fld "ct" (ct.map fun c => s!"{c.1}.{c.2}") ++ fldN "qd" s.qd ++ fldN "an" s.an
        ++ fldN "ns" s.ns ++ fldN "ar" s.ar ++ fldN "ev" s.ev ++ fldN "us" s.us ++ fldX "ord" ord ++ fldN "rrc" s.rrc)
  let hl ← optU "client-hoplimit" m 5
  let rd ← optI "response-delay" m 6
  let qni ← optU "query-name-index" m 7
  let qn ← idxO "query-name-index" t.nr qni
  let qs ← optU "query-size" m 8
  let rs ← optU "response-size" m 9
  let (rpdF, bwi) ← match get? m 10 with
    | none => pure ([], none)
    | some r => do
      let rm ← asMapE "response-processing-data" r
      let bi ← optU "bailiwick-index" rm 0
      let bw ← idxO "bailiwick-index" t.nr bi
      let pf ← optU "processing-flags" rm 1
      pure (fldX "bw" bw ++ fldN "pf" pf, bi)
  let (qeF, qeQ, qeR) ← readExtended t m 11 ["qq", "qa", "qu", "qx"]
  let (reF, reQ, reR) ← readExtended t m 12 ["rq", "ra", "ru", "rx"]
  let asn ← optT "asn" m (-1)
  let cc ← optT "country-code" m (-2)
  let rtt ← optI "round-trip-time" m (-3)
  let fields := fld "ts" ts ++ fldX "cip" cip ++ fldN "cport" cport ++ fldN "tid" tid ++ sigF ++ fldN "hl" hl ++ fldI "rd" rd
    ++ fldX "qn" qn ++ fldN "qs" qs ++ fldN "rs" rs ++ rpdF ++ qeF ++ reF ++ fldX "asn" asn ++ fldX "cc" cc ++ fldI "rtt" rtt
  let refs : Refs := { ip := cai.toList, sig := si.toList, nr := qni.toList ++ bwi.toList, qlist := qeQ ++ reQ, rrlist := qeR ++ reR }
  pure ("Q{" ++ commas fields ++ "}", refs)

def readAEC (t : Tables) (i : Item) : R (String × Refs) := do
  let m ← asMapE "address-event-count" i
  let at_ ← reqU "ae-type" m 0
  let ac ← optU "ae-code" m 1
  let ai ← reqU "ae-address-index" m 2
  let ip ← idx "ae-address-index" t.ip ai
  let atf ← optU "ae-transport-flags" m 3
  let n ← reqU "ae-count" m 4
  pure ("A{" ++ commas ([s!"at={at_}"] ++ fldN "ac" ac ++ fldN "atf" atf ++ [s!"ip={xs ip}", s!"n={n}"]) ++ "}", { ip := [ai] })

def readMM (t : Tables) (earliest : Nat × Nat) (tps : Nat) (i : Item) : R (String × Refs) := do
  let m ← asMapE "malformed-message" i
  let off ← optU "time-offset" m 0
  let ts ← match off with | some o => do pure (some (← timeOf earliest tps o)) | none => pure none
  let cai ← optU "client-address-index" m 1
  let cip ← idxO "client-address-index" t.ip cai
  let cport ← optU "client-port" m 2
  let mdi ← optU "message-data-index" m 3
  let md ← idxO "message-data-index" t.mmd mdi
  let mdF ← match md with
    | none => pure []
    | some d => do
      let sip ← idxO "server-address-index" t.ip d.sai
      pure (fldX "sip" sip ++ fldN "sport" d.sport ++ fldN "tf" d.tf ++ fldX "pl" d.pl)
  pure ("M{" ++ commas (fld "ts" ts ++ fldX "cip" cip ++ fldN "cport" cport ++ mdF) ++ "}", { ip := cai.toList, mmd := mdi.toList })

/-- close the reference sets over the tables and count entries nothing refers to -/
def unreachable (t : Tables) (r : Refs) : Nat :=
  let mmd := r.mmd.eraseDups
  let sig := r.sig.eraseDups
  let qlist := r.qlist.eraseDups
  let rrlist := r.rrlist.eraseDups
  let qrr := (qlist.flatMap fun i => (t.qlist[i]?).getD []).eraseDups
  let rr := (rrlist.flatMap fun i => (t.rrlist[i]?).getD []).eraseDups
  let sigs := sig.filterMap fun i => t.sig[i]?
  let rrs := rr.filterMap fun i => t.rr[i]?
  let qrrs := qrr.filterMap fun i => t.qrr[i]?
  let mmds := mmd.filterMap fun i => t.mmd[i]?
  let ip := (r.ip ++ sigs.filterMap (·.sai) ++ mmds.filterMap (·.sai)).eraseDups
  let ct := (r.ct ++ sigs.filterMap (·.cti) ++ rrs.map (·.ct) ++ qrrs.map (·.2)).eraseDups
  let nr := (r.nr ++ sigs.filterMap (·.ordi) ++ rrs.map (·.name) ++ rrs.filterMap (·.rdata) ++ qrrs.map (·.1)).eraseDups
  (t.ip.length - ip.length) + (t.ct.length - ct.length) + (t.nr.length - nr.length) + (t.sig.length - sig.length)
    + (t.qlist.length - qlist.length) + (t.qrr.length - qrr.length) + (t.rrlist.length - rrlist.length)
    + (t.rr.length - rr.length) + (t.mmd.length - mmd.length)

def mergeRefs (a b : Refs) : Refs :=
  { ip := a.ip ++ b.ip, ct := a.ct ++ b.ct, nr := a.nr ++ b.nr, sig := a.sig ++ b.sig, qlist := a.qlist ++ b.qlist,
    qrr := a.qrr ++ b.qrr, rrlist := a.rrlist ++ b.rrlist, rr := a.rr ++ b.rr, mmd := a.mmd ++ b.mmd }

def insertSorted (s : String) : List String → List String
  | [] => [s]
  | x :: xs => if s < x then s :: x :: xs else x :: insertSorted s xs
def sortStrings (l : List String) : List String := l.foldl (fun acc s => insertSorted s acc) []

structure BlockOut where
  dump : String
  unreach : Nat
  items : Nat

def readBlock (bps : List Params) (i : Item) : R BlockOut := do
  let m ← asMapE "block" i
  let preI ← match get? m 0 with | some x => pure x | none => throw "block: block-preamble missing"
  let pre ← asMapE "block-preamble" preI
  let et ← match get? pre 0 with
    | some e => do
      let a ← asArrE "earliest-time" e
      match a with
      | [s, t] => do pure (← asUintE "earliest-time seconds" s, ← asUintE "earliest-time ticks" t)
      | _ => throw "earliest-time: not a 2-element array"
    | none => throw "block-preamble: earliest-time missing"
  let pi ← optU "block-parameters-index" pre 1
  let p ← idx "block-parameters-index" bps (pi.getD 0)
  let st ← match get? m 1 with
    | none => pure none
    | some s => do
      let sm ← asMapE "block-statistics" s
      let vs ← [0, 1, 2, 3, 4, 5].mapM fun (k : Int) => optU "block-statistics member" sm k
      pure (some (".".intercalate (vs.map fun v => match v with | some n => toString n | none => "-")))
  let t ← match get? m 2 with | some x => readTables x | none => pure {}
  checkTables t
  let qrs ← match get? m 3 with
    | some a => do (← asArrE "query-responses" a).mapM (readQR t et p.tps)
    | none => pure []
  let aecs ← match get? m 4 with
    | some a => do (← asArrE "address-event-counts" a).mapM (readAEC t)
    | none => pure []
  let mms ← match get? m 5 with
    | some a => do (← asArrE "malformed-messages" a).mapM (readMM t et p.tps)
    | none => pure []
  let refs := (qrs ++ aecs ++ mms).foldl (fun acc x => mergeRefs acc x.2) {}
  let parts := [s!"pi={pi.getD 0}"] ++ fld "st" st ++ qrs.map (·.1) ++ sortStrings (aecs.map (·.1)) ++ mms.map (·.1)
  pure { dump := "B{" ++ ";".intercalate parts ++ "}", unreach := unreachable t refs, items := qrs.length + aecs.length + mms.length }

structure FileOut where
  dump : String
  unreach : Nat
  blocks : Nat
  emptyBlocks : Nat

def interpretItem (f : Item) : R FileOut := do
  let top ← asArrE "file" f
  match top with
  | [tid, pre, blks] => do
    let t ← asTextE "file-type-id" tid
    if t ≠ [67, 45, 68, 78, 83] then throw "file-type-id is not \"C-DNS\""
    let (pd, bps) ← readPreamble pre
    let bs ← (← asArrE "file-blocks" blks).mapM (readBlock bps)
    pure { dump := " ".intercalate ([pd] ++ bs.map (·.dump) ++ ["EOF"]), unreach := (bs.map (·.unreach)).sum,
           blocks := bs.length, emptyBlocks := (bs.filter (·.items == 0)).length }
  | _ => throw "file: not a 3-element array"

/-- bytes of a complete output → canonical rendering, or the reason it is not a valid C-DNS file -/
def interpret (bs : Bytes) : R FileOut :=
  match parseOne bs with
  | none => throw "not exactly one well-formed CBOR data item"
  | some i => interpretItem i

end CdnsVerif.Spec.Cdns
