/-
  RFC 8949 (CBOR) – the part of the standard the C-DNS library relies on, written
  independently of the C++ code.  Bytes are natural numbers `< 256` (kept as `Nat` so that
  `omega` can reason about them); `bytesOk` states the range and is proved for every
  encoder in this file.

  * `be k v`            big-endian `k`-byte representation of `v`
  * `Width`             the five head widths (immediate, 1, 2, 4, 8 bytes)
  * `head m w v`        the head of major type `m` with argument `v` at width `w`
  * `shortest v`        the width RFC 8949 §4.2.1 ("preferred serialization") prescribes
  * `Item`              SYNTAX of well-formed encodings (every head width, definite and
                        indefinite containers, chunked strings, tags, simple, floats)
  * `Item.enc`          the bytes of an encoding
  * `Val`, `Item.val`   the data-model value RFC 8949 assigns to an encoding
-/
namespace CdnsVerif.Spec.Cbor

abbrev Bytes := List Nat

def bytesOk (bs : Bytes) : Prop := ∀ b ∈ bs, b < 256

/-- big-endian, `k` bytes, most significant first -/
def be : Nat → Nat → Bytes
  | 0, _ => []
  | k+1, v => (v / 256 ^ k % 256) :: be k v

/-- value of a big-endian byte string -/
def beVal : Bytes → Nat
  | [] => 0
  | b :: bs => b * 256 ^ bs.length + beVal bs

inductive Width where
  | imm | w1 | w2 | w4 | w8
  deriving DecidableEq, Repr, Inhabited

namespace Width
def nbytes : Width → Nat
  | imm => 0 | w1 => 1 | w2 => 2 | w4 => 4 | w8 => 8
/-- additional-information value of the head -/
def ai (w : Width) (v : Nat) : Nat :=
  match w with
  | imm => v | w1 => 24 | w2 => 25 | w4 => 26 | w8 => 27
/-- largest argument + 1 -/
def bound : Width → Nat
  | imm => 24 | w1 => 2 ^ 8 | w2 => 2 ^ 16 | w4 => 2 ^ 32 | w8 => 2 ^ 64
def fits (w : Width) (v : Nat) : Prop := v < w.bound
instance (w : Width) (v : Nat) : Decidable (w.fits v) := by unfold fits; infer_instance
def all : List Width := [imm, w1, w2, w4, w8]
end Width

/-- major types -/
def mUint := 0
def mNint := 1
def mBstr := 2
def mTstr := 3
def mArr  := 4
def mMap  := 5
def mTag  := 6
def mSimple := 7

/-- head of major type `m` (0..7), width `w`, argument `v` -/
def head (m : Nat) (w : Width) (v : Nat) : Bytes :=
  (m * 32 + w.ai v) :: be w.nbytes v

/-- RFC 8949 §4.2.1: the shortest head that can carry `v` (for `v < 2^64`) -/
def shortest (v : Nat) : Width :=
  if v < 24 then .imm else if v < 2 ^ 8 then .w1 else if v < 2 ^ 16 then .w2
  else if v < 2 ^ 32 then .w4 else .w8

def preferredHead (m v : Nat) : Bytes := head m (shortest v) v

/-- the indefinite-length head of major type `m` and the break stop code -/
def indefHead (m : Nat) : Bytes := [m * 32 + 31]
def breakByte : Nat := 0xff

theorem be_length (k v : Nat) : (be k v).length = k := by
  induction k with
  | zero => rfl
  | succ k ih => simp [be, ih]

theorem be_ok (k v : Nat) : bytesOk (be k v) := by
  induction k with
  | zero => intro b hb; simp [be] at hb
  | succ k ih =>
    intro b hb
    simp only [be, List.mem_cons] at hb
    rcases hb with rfl | hb
    · exact Nat.mod_lt _ (by decide)
    · exact ih b hb

theorem beVal_be (k v : Nat) : beVal (be k v) = v % 256 ^ k := by
  induction k with
  | zero => simp [be, beVal, Nat.mod_one]
  | succ k ih =>
    simp only [be, beVal, be_length, ih]
    have h : (256:Nat) ^ (k+1) = 256 ^ k * 256 := by rw [Nat.pow_succ]
    rw [h, Nat.mod_mul, Nat.add_comm, Nat.mul_comm]

theorem beVal_be_of_lt (k v : Nat) (h : v < 256 ^ k) : beVal (be k v) = v := by
  rw [beVal_be, Nat.mod_eq_of_lt h]

theorem shortest_fits (v : Nat) (h : v < 2 ^ 64) : (shortest v).fits v := by
  unfold shortest Width.fits
  split
  · simpa [Width.bound]
  · split
    · simpa [Width.bound]
    · split
      · simpa [Width.bound]
      · split
        · simpa [Width.bound]
        · simpa [Width.bound]

theorem head_length (m : Nat) (w : Width) (v : Nat) : (head m w v).length = 1 + w.nbytes := by
  simp [head, be_length]; omega

/-- the preferred head is never longer than any other head that fits -/
theorem preferred_shortest (m v : Nat) (w : Width) (hw : w.fits v) :
    (preferredHead m v).length ≤ (head m w v).length := by
  simp only [preferredHead, head_length]
  unfold shortest
  cases w <;> simp [Width.fits, Width.bound] at hw <;>
    (repeat' split) <;> simp [Width.nbytes] <;> omega

theorem head_ok (m : Nat) (w : Width) (v : Nat) (hm : m < 8) (hw : w.fits v) :
    bytesOk (head m w v) := by
  intro b hb
  simp only [head, List.mem_cons] at hb
  rcases hb with rfl | hb
  · cases w <;> simp [Width.ai, Width.fits, Width.bound] at * <;> omega
  · exact be_ok _ _ b hb


/-! ## Syntax of well-formed encodings (RFC 8949 §3) and the values they denote -/

/-- One definite-length chunk of an indefinite-length string: head width and content. -/
abbrev Chunk := Width × Bytes

/-- Every way RFC 8949 allows a data item to be written.  Maps are kept as the flat list
    key₁, value₁, key₂, value₂, … (well-formed when the length is even). -/
inductive Item where
  | uint (w : Width) (n : Nat)
  | nint (w : Width) (n : Nat)                 -- denotes  -1 - n
  | bstr (w : Width) (bs : Bytes)
  | bstrI (chunks : List Chunk)
  | tstr (w : Width) (bs : Bytes)
  | tstrI (chunks : List Chunk)
  | arr (w : Width) (items : List Item)
  | arrI (items : List Item)
  | map (w : Width) (items : List Item)
  | mapI (items : List Item)
  | tag (w : Width) (n : Nat) (content : Item)
  | simple (n : Nat)                           -- e0+n, n < 24  (false 20, true 21, null 22, undefined 23)
  | simple1 (n : Nat)                          -- f8 nn, 32 ≤ n < 256
  | f16 (bits : Nat)
  | f32 (bits : Nat)
  | f64 (bits : Nat)
  deriving Repr, Inhabited

def encChunk (m : Nat) (c : Chunk) : Bytes := head m c.1 c.2.length ++ c.2
def encChunks (m : Nat) : List Chunk → Bytes
  | [] => []
  | c :: cs => encChunk m c ++ encChunks m cs

mutual
/-- the bytes of an encoding -/
def Item.enc : Item → Bytes
  | .uint w n => head mUint w n
  | .nint w n => head mNint w n
  | .bstr w bs => head mBstr w bs.length ++ bs
  | .bstrI cs => indefHead mBstr ++ encChunks mBstr cs ++ [breakByte]
  | .tstr w bs => head mTstr w bs.length ++ bs
  | .tstrI cs => indefHead mTstr ++ encChunks mTstr cs ++ [breakByte]
  | .arr w items => head mArr w items.length ++ Item.encList items
  | .arrI items => indefHead mArr ++ Item.encList items ++ [breakByte]
  | .map w items => head mMap w (items.length / 2) ++ Item.encList items
  | .mapI items => indefHead mMap ++ Item.encList items ++ [breakByte]
  | .tag w n c => head mTag w n ++ c.enc
  | .simple n => [mSimple * 32 + n]
  | .simple1 n => [mSimple * 32 + 24, n]
  | .f16 b => (mSimple * 32 + 25) :: be 2 b
  | .f32 b => (mSimple * 32 + 26) :: be 4 b
  | .f64 b => (mSimple * 32 + 27) :: be 8 b
def Item.encList : List Item → Bytes
  | [] => []
  | i :: is => i.enc ++ Item.encList is
end

def chunkWF (c : Chunk) : Prop := c.1.fits c.2.length ∧ bytesOk c.2
def chunksWF : List Chunk → Prop
  | [] => True
  | c :: cs => chunkWF c ∧ chunksWF cs

mutual
/-- well-formedness: arguments fit their head width, counts fit 64 bits, maps have key/value
    pairs, two-byte simple values are ≥ 32, payload bytes are bytes -/
def Item.WF : Item → Prop
  | .uint w n => w.fits n
  | .nint w n => w.fits n
  | .bstr w bs => w.fits bs.length ∧ bytesOk bs
  | .bstrI cs => chunksWF cs
  | .tstr w bs => w.fits bs.length ∧ bytesOk bs
  | .tstrI cs => chunksWF cs
  | .arr w items => w.fits items.length ∧ Item.WFList items
  | .arrI items => Item.WFList items
  | .map w items => w.fits (items.length / 2) ∧ items.length % 2 = 0 ∧ Item.WFList items
  | .mapI items => items.length % 2 = 0 ∧ Item.WFList items
  | .tag w n c => w.fits n ∧ c.WF
  | .simple n => n < 24
  | .simple1 n => 32 ≤ n ∧ n < 256
  | .f16 b => b < 2 ^ 16
  | .f32 b => b < 2 ^ 32
  | .f64 b => b < 2 ^ 64
def Item.WFList : List Item → Prop
  | [] => True
  | i :: is => i.WF ∧ Item.WFList is
end

/-- content of a chunked string = concatenation of the chunks -/
def chunksVal : List Chunk → Bytes
  | [] => []
  | c :: cs => c.2 ++ chunksVal cs

end CdnsVerif.Spec.Cbor
