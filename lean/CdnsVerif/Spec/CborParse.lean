/-
  Strict RFC 8949 parser: bytes → syntax tree (`Spec.Cbor.Item`).  Independent of the
  library's decoder (it is written from the RFC's grammar, returns the whole tree, and
  rejects everything that is not well-formed: reserved additional-information values 28–30,
  indefinite length on major types 0/1/6, a stop code outside an indefinite container,
  chunks of the wrong type or of indefinite length, two-byte simple values below 32, an odd
  number of items in an indefinite map, trailing or missing bytes).
-/
import CdnsVerif.Spec.Cbor
namespace CdnsVerif.Spec.Cbor

/-- head: (major, additional info, width, argument, rest); `none` for ai 28..31 and truncation -/
def parseArg (ai : Nat) (bs : Bytes) : Option (Width × Nat × Bytes) :=
  if ai < 24 then some (.imm, ai, bs)
  else
    let (w, k) := if ai = 24 then (Width.w1, 1) else if ai = 25 then (Width.w2, 2)
                  else if ai = 26 then (Width.w4, 4) else (Width.w8, 8)
    if ai > 27 then none
    else if bs.length < k then none
    else some (w, beVal (bs.take k), bs.drop k)

def parseChunks (m : Nat) : Nat → Bytes → Option (List Chunk × Bytes)
  | 0, _ => none
  | _+1, [] => none
  | fuel+1, b :: bs =>
    if b = 0xff then some ([], bs)
    else if b / 32 ≠ m then none
    else match parseArg (b % 32) bs with
      | none => none
      | some (w, n, rest) =>
        if rest.length < n then none
        else match parseChunks m fuel (rest.drop n) with
          | none => none
          | some (cs, r) => some ((w, rest.take n) :: cs, r)

mutual
def parseItem : Nat → Bytes → Option (Item × Bytes)
  | 0, _ => none
  | _+1, [] => none
  | fuel+1, b :: bs =>
    let m := b / 32
    let ai := b % 32
    if b ≥ 256 then none
    else if m = 7 then
      if ai < 24 then some (.simple ai, bs)
      else if ai = 24 then
        match bs with
        | n :: r => if 32 ≤ n ∧ n < 256 then some (.simple1 n, r) else none
        | [] => none
      else if ai = 25 then (if bs.length < 2 then none else some (.f16 (beVal (bs.take 2)), bs.drop 2))
      else if ai = 26 then (if bs.length < 4 then none else some (.f32 (beVal (bs.take 4)), bs.drop 4))
      else if ai = 27 then (if bs.length < 8 then none else some (.f64 (beVal (bs.take 8)), bs.drop 8))
      else none
    else if ai = 31 then
      if m = 2 then (parseChunks 2 fuel bs).map fun (cs, r) => (.bstrI cs, r)
      else if m = 3 then (parseChunks 3 fuel bs).map fun (cs, r) => (.tstrI cs, r)
      else if m = 4 then (parseUntilBreak fuel bs).map fun (is, r) => (.arrI is, r)
      else if m = 5 then
        match parseUntilBreak fuel bs with
        | some (is, r) => if is.length % 2 = 0 then some (.mapI is, r) else none
        | none => none
      else none
    else match parseArg ai bs with
      | none => none
      | some (w, n, rest) =>
        if m = 0 then some (.uint w n, rest)
        else if m = 1 then some (.nint w n, rest)
        else if m = 2 then (if rest.length < n then none else some (.bstr w (rest.take n), rest.drop n))
        else if m = 3 then (if rest.length < n then none else some (.tstr w (rest.take n), rest.drop n))
        else if m = 4 then (parseItems fuel n rest).map fun (is, r) => (.arr w is, r)
        else if m = 5 then (parseItems fuel (2 * n) rest).map fun (is, r) => (.map w is, r)
        else match parseItem fuel rest with
          | some (c, r) => some (.tag w n c, r)
          | none => none
def parseItems : Nat → Nat → Bytes → Option (List Item × Bytes)
  | 0, _, _ => none
  | _+1, 0, bs => some ([], bs)
  | fuel+1, n+1, bs =>
    match parseItem fuel bs with
    | none => none
    | some (i, r) =>
      match parseItems fuel n r with
      | none => none
      | some (is, r') => some (i :: is, r')
def parseUntilBreak : Nat → Bytes → Option (List Item × Bytes)
  | 0, _ => none
  | _+1, [] => none
  | fuel+1, b :: bs =>
    if b = 0xff then some ([], bs)
    else match parseItem fuel (b :: bs) with
      | none => none
      | some (i, r) =>
        match parseUntilBreak fuel r with
        | none => none
        | some (is, r') => some (i :: is, r')
end

/-- exactly one well-formed data item, nothing after it -/
def parseOne (bs : Bytes) : Option Item :=
  if ¬ bs.all (· < 256) then none else
  match parseItem (2 * bs.length + 2) bs with
  | some (i, []) => some i
  | _ => none

/-! ### data-model accessors (RFC 8949 §2): what an encoding denotes -/

def Item.asUint : Item → Option Nat
  | .uint _ n => some n
  | _ => none

def Item.asInt : Item → Option Int
  | .uint _ n => some n
  | .nint _ n => some (-1 - (n : Int))
  | _ => none

def Item.asBytes : Item → Option Bytes
  | .bstr _ b => some b
  | .bstrI cs => some (chunksVal cs)
  | _ => none

def Item.asText : Item → Option Bytes
  | .tstr _ b => some b
  | .tstrI cs => some (chunksVal cs)
  | _ => none

def Item.asArray : Item → Option (List Item)
  | .arr _ is => some is
  | .arrI is => some is
  | _ => none

def pairUp : List Item → Option (List (Int × Item))
  | [] => some []
  | k :: v :: rest => do
    let ki ← k.asInt
    let r ← pairUp rest
    some ((ki, v) :: r)
  | [_] => none

/-- integer-keyed map as an association list; duplicate keys are rejected (RFC 8949 §5.6) -/
def Item.asMap : Item → Option (List (Int × Item))
  | .map _ is => do
    let ps ← pairUp is
    if (ps.map (·.1)).eraseDups.length = ps.length then some ps else none
  | .mapI is => do
    let ps ← pairUp is
    if (ps.map (·.1)).eraseDups.length = ps.length then some ps else none
  | _ => none

def Item.asBool : Item → Option Bool
  | .simple 20 => some false
  | .simple 21 => some true
  | _ => none

end CdnsVerif.Spec.Cbor
