// Encoder layer: drives the real CDNS::CdnsEncoder.
//   request : enc <op>;<op>;...      (encv = full hex instead of digest)
//   answer  : I <ret>,<ret>,...|<len>:<fnv64>     bytes that reached the output writer
#include "common.h"
#include "cdns_encoder.h"
#include <fcntl.h>
#include <unistd.h>

namespace {
struct CaptureWriter : public CDNS::BaseCborOutputWriter {
    explicit CaptureWriter(std::string* sink) : sink_(sink) {}
    void write(const char* p, std::size_t size) override { sink_->append(p, size); }
    void rotate_output(const boost::any&) override {}
    std::string* sink_;
};

std::string session(const std::string& payload, bool verbose) {
    std::string sink;
    std::string rets;
    {
        int fd = open("/dev/null", O_WRONLY);
        CDNS::CdnsEncoder enc(fd, CDNS::CborOutputCompression::NO_COMPRESSION);
        enc.m_cos = std::make_unique<CaptureWriter>(&sink);   // closes the /dev/null fd
        bool first = true;
        for (const std::string& tok : vh::split(payload, ';')) {
            if (tok.empty()) continue;
            std::vector<std::string> a = vh::split(tok, ':');
            const std::string& op = a[0];
            std::size_t r = 0;
            if (op == "as") r = enc.write_array_start(std::strtoull(a[1].c_str(), nullptr, 10));
            else if (op == "ias") r = enc.write_indef_array_start();
            else if (op == "ms") r = enc.write_map_start(std::strtoull(a[1].c_str(), nullptr, 10));
            else if (op == "ims") r = enc.write_indef_map_start();
            else if (op == "bs") { std::string s = vh::from_hex(a[1]); r = enc.write_bytestring(s); }
            else if (op == "ts") { std::string s = vh::from_hex(a[1]); r = enc.write_textstring(s); }
            else if (op == "bsp") { std::string s = vh::pattern(std::strtoull(a[1].c_str(), nullptr, 10), std::strtoull(a[2].c_str(), nullptr, 10));
                                    r = enc.write_bytestring(reinterpret_cast<const unsigned char*>(s.data()), s.size()); }
            else if (op == "tsp") { std::string s = vh::pattern(std::strtoull(a[1].c_str(), nullptr, 10), std::strtoull(a[2].c_str(), nullptr, 10));
                                    r = enc.write_textstring(reinterpret_cast<const unsigned char*>(s.data()), s.size()); }
            else if (op == "bsn") r = enc.write_bytestring(nullptr, 7);
            else if (op == "tsn") r = enc.write_textstring(nullptr, 7);
            else if (op == "brk") r = enc.write_break();
            else if (op == "b") r = enc.write(a[1] == "1");
            else if (op == "u8") r = enc.write(static_cast<uint8_t>(std::strtoull(a[1].c_str(), nullptr, 10)));
            else if (op == "u16") r = enc.write(static_cast<uint16_t>(std::strtoull(a[1].c_str(), nullptr, 10)));
            else if (op == "u32") r = enc.write(static_cast<uint32_t>(std::strtoull(a[1].c_str(), nullptr, 10)));
            else if (op == "u64") r = enc.write(static_cast<uint64_t>(std::strtoull(a[1].c_str(), nullptr, 10)));
            else if (op == "i8") r = enc.write(static_cast<int8_t>(std::strtoll(a[1].c_str(), nullptr, 10)));
            else if (op == "i16") r = enc.write(static_cast<int16_t>(std::strtoll(a[1].c_str(), nullptr, 10)));
            else if (op == "i32") r = enc.write(static_cast<int32_t>(std::strtoll(a[1].c_str(), nullptr, 10)));
            else if (op == "i64") r = enc.write(static_cast<int64_t>(std::strtoll(a[1].c_str(), nullptr, 10)));
            else return "bad-op";
            if (!first) rets += ",";
            rets += std::to_string(r);
            first = false;
        }
    }   // destructor flushes into the capture writer
    return "I " + rets + "|" + (verbose ? vh::to_hex(sink) : vh::digest(sink));
}
}  // namespace

int vh::run_enc(int, char**) {
    std::string line;
    while (std::getline(std::cin, line)) {
        bool verbose = line.rfind("encv ", 0) == 0;
        std::size_t sp = line.find(' ');
        std::string payload = sp == std::string::npos ? "" : line.substr(sp + 1);
        std::cout << session(payload, verbose) << "\n";
    }
    return 0;
}
