// Writer layer (C14): drives CborOutputWriter / GzipCborOutputWriter / XzCborOutputWriter directly.
//   wr <dir> <n|g|x> <nm|fd> <case id> <op> <op> ...
//     c:<size>:<z|r|p>:<seed>   write one chunk of <size> bytes (zeros / pseudo-random / pattern)
//     r                         rotate_output to the next target
//     k                         also report every deflate / lzma_code call: K <avail_in>:<finish>:<avail_out>:<consumed>:<produced>:<stream end>,… ('|' after each output)
//     (end of line)             destroy the writer
//   outputs are files <dir>/w<line>_<k>[.gz|.xz] (descriptor targets are files opened by the harness)
//   answer: I ok|E:<what> | <path> <path> ... | crc=<crc32 of all plain bytes per output, comma separated> len=<lengths>
#include "common.h"
#include "writer.h"
#include <zlib.h>
#include <fcntl.h>
#include <unistd.h>
#include <dlfcn.h>
#include <lzma.h>

// every call the library makes to the compressors, for the correspondence of Model.Writer's write/finish loops (op `k`):
// deflate / lzma_code are defined in the harness executable (the library's calls resolve here), the real ones via RTLD_NEXT
namespace { std::string* g_klog = nullptr; }
extern "C" int deflate(z_streamp strm, int flush) {
    typedef int (*fn)(z_streamp, int);
    static fn real = reinterpret_cast<fn>(dlsym(RTLD_NEXT, "deflate"));
    unsigned long ai = strm->avail_in, ao = strm->avail_out;
    int ret = real(strm, flush);
    if (g_klog) *g_klog += std::to_string(ai) + ":" + (flush == Z_FINISH ? "1" : "0") + ":" + std::to_string(ao) + ":" + std::to_string(ai - strm->avail_in) + ":" +
                           std::to_string(ao - strm->avail_out) + ":" + (ret == Z_STREAM_END ? "1" : "0") + ",";
    return ret;
}
extern "C" lzma_ret lzma_code(lzma_stream* strm, lzma_action action) {
    typedef lzma_ret (*fn)(lzma_stream*, lzma_action);
    static fn real = reinterpret_cast<fn>(dlsym(RTLD_NEXT, "lzma_code"));
    unsigned long ai = strm->avail_in, ao = strm->avail_out;
    lzma_ret ret = real(strm, action);
    if (g_klog) *g_klog += std::to_string(ai) + ":" + (action == LZMA_FINISH ? "1" : "0") + ":" + std::to_string(ao) + ":" + std::to_string(ai - strm->avail_in) + ":" +
                           std::to_string(ao - strm->avail_out) + ":" + (ret == LZMA_STREAM_END ? "1" : "0") + ",";
    return ret;
}

namespace {
std::string make_chunk(std::size_t size, char kind, uint64_t seed) {
    std::string s(size, '\0');
    if (kind == 'r') {
        uint64_t x = seed * 2654435761ULL + 88172645463325252ULL;
        for (std::size_t i = 0; i < size; i++) { x ^= x << 13; x ^= x >> 7; x ^= x << 17; s[i] = static_cast<char>(x >> 32); }
    } else if (kind == 'p') {
        for (std::size_t i = 0; i < size; i++) s[i] = static_cast<char>((i * 7 + seed) % 251);
    }
    return s;
}
}  // namespace

int vh::run_wr(int, char**) {
    std::string line;
    int ln = 0;
    while (std::getline(std::cin, line)) {
        auto a = vh::split(line, ' ');
        if (a.size() < 5) { std::cout << "bad-op\n"; continue; }
        std::string dir = a[1], comp = a[2], tgt = a[3], cid = a[4];
        std::string suffix = comp == "g" ? ".gz" : comp == "x" ? ".xz" : "";
        std::vector<std::string> paths;
        std::vector<uLong> crcs;
        std::vector<uint64_t> lens;
        int serial = 0;
        auto next_name = [&]() { return dir + "/w" + cid + "_" + std::to_string(serial++); };
        std::string status = "ok";
        std::string klog;
        bool want_klog = false;
        for (std::size_t i = 5; i < a.size(); i++) if (a[i] == "k") want_klog = true;
        g_klog = want_klog ? &klog : nullptr;
        try {
            std::unique_ptr<CDNS::BaseCborOutputWriter> w;
            auto open_target = [&](bool first) {
                std::string name = next_name();
                crcs.push_back(crc32(0L, Z_NULL, 0)); lens.push_back(0);
                if (tgt == "nm") {
                    paths.push_back(name + suffix);
                    if (first) {
                        if (comp == "g") w = std::make_unique<CDNS::GzipCborOutputWriter>(name);
                        else if (comp == "x") w = std::make_unique<CDNS::XzCborOutputWriter>(name);
                        else w = std::make_unique<CDNS::CborOutputWriter>(name);
                    } else w->rotate_output(name);
                } else {
                    paths.push_back(name);
                    int fd = ::open(name.c_str(), O_WRONLY | O_CREAT | O_TRUNC, 0600);
                    if (first) {
                        if (comp == "g") w = std::make_unique<CDNS::GzipCborOutputWriter>(fd);
                        else if (comp == "x") w = std::make_unique<CDNS::XzCborOutputWriter>(fd);
                        else w = std::make_unique<CDNS::CborOutputWriter>(fd);
                    } else w->rotate_output(fd);
                }
                if (!first) klog += "|";          // the calls so far belong to the outputs closed so far
            };
            open_target(true);
            for (std::size_t i = 5; i < a.size(); i++) {
                if (a[i].empty() || a[i] == "k") continue;
                if (a[i] == "r") { open_target(false); continue; }
                auto p = vh::split(a[i], ':');
                std::string chunk = make_chunk(std::strtoull(p[1].c_str(), nullptr, 10), p[2][0], std::strtoull(p[3].c_str(), nullptr, 10));
                w->write(chunk.data(), chunk.size());
                crcs.back() = crc32(crcs.back(), reinterpret_cast<const Bytef*>(chunk.data()), chunk.size());
                lens.back() += chunk.size();
            }
            w.reset();
        } catch (std::exception& e) { status = std::string("E:") + e.what(); for (char& c : status) if (c == ' ') c = '_'; }
        std::string out = "I " + status + " |";
        for (auto& p : paths) out += " " + p;
        out += " | crc=";
        for (std::size_t i = 0; i < crcs.size(); i++) out += (i ? "," : "") + std::to_string(crcs[i]);
        out += " len=";
        for (std::size_t i = 0; i < lens.size(); i++) out += (i ? "," : "") + std::to_string(lens[i]);
        g_klog = nullptr;
        if (want_klog) out += " | K " + klog;
        std::cout << out << std::endl;
        ln++;
    }
    return 0;
}
