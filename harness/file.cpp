// Exporter and reader layers: drive the real CdnsExporter / CdnsReader.
//
//   exp <token> <token> ...      one session per line
//     FP:maj=..,min=..,priv=..   file preamble members (priv absent -> no private version)
//     BP:<kv>                    define block parameters no. k (k = 0,1,...)
//     X:<fd|nm>:<n|g|x>          construct the exporter (preamble = FP + the BPs defined so far)
//     Q:<kv>[;st=..]  A:<kv>[;st=..]  M:<kv>[;st=..]     buffer_qr / buffer_aec / buffer_mm  -> return value
//     W                          write_block()                     -> return value
//     R:<fd|nm>:<0|1>            rotate_output(new target, export_current_block) -> return value
//     AB:<k>                     add_block_parameters(BP k)        -> index
//     SA:<i>                     set_active_block_parameters(i)    -> 0/1
//     C                          counters  -> c=<items>.<qr>.<aec>.<mm>.<blocks written>
//     D                          destroy the exporter
//   answer: I <result> <result> ... | <hex of output 0> <hex of output 1> ...      (- for an empty output)
//
//   rd <s|f> <hex> [cut]         read a (prefix of a) file with CdnsReader
//   answer: I <preamble dump> B{...} B{...} <EOF|E:end|E:dec|E:other>
#include "common.h"
#include <thread>
#include <signal.h>
#include "records.h"
#include <fcntl.h>
#include <unistd.h>
#include <sys/mman.h>
#include <sys/stat.h>
#include <algorithm>
#include <fstream>
#include <sstream>
#include <memory>

namespace {

std::string g_tmpdir;
bool g_tmpdir_fixed = false;
void ensure_tmpdir() {
    if (!g_tmpdir.empty()) return;
    const char* base = std::getenv("VERIF_TMP");
    std::string t = std::string(base ? base : "/tmp") + "/cdnsvh-XXXXXX";
    std::vector<char> buf(t.begin(), t.end());
    buf.push_back(0);
    if (!mkdtemp(buf.data())) { std::perror("mkdtemp"); std::exit(3); }
    g_tmpdir = buf.data();
}
void cleanup_tmpdir() {
    if (g_tmpdir.empty() || g_tmpdir_fixed) return;
    std::string cmd = "rm -rf '" + g_tmpdir + "'";
    if (std::system(cmd.c_str())) {}
}

std::string slurp_fd(int fd) {
    std::string out;
    off_t size = lseek(fd, 0, SEEK_END);
    if (size <= 0) return out;
    out.resize(size);
    off_t off = 0;
    while (off < size) { ssize_t r = pread(fd, &out[off], size - off, off); if (r <= 0) break; off += r; }
    return out;
}
std::string slurp_file(const std::string& path, bool& exists) {
    std::ifstream f(path, std::ifstream::binary);
    exists = f.good();
    std::stringstream ss;
    ss << f.rdbuf();
    return ss.str();
}

bool g_keep_files = false;

struct Output {
    bool named;
    int keep_fd;            // dup of the descriptor handed to the library
    std::string name;       // named: path without suffix
    // an output later replaced under the same name: what was visible under the final name right after the rotation that closed it
    bool snapped = false;
    bool snap_exists = false;
    std::string snap;
};

struct Session {
    CDNS::FilePreamble fp;
    std::vector<CDNS::BlockParameters> bps;
    bool have_fp_priv = false;
    std::unique_ptr<CDNS::CdnsExporter> exp;
    std::vector<Output> outs;
    CDNS::CborOutputCompression comp = CDNS::CborOutputCompression::NO_COMPRESSION;
    int serial = 0;
    int line_no = 0;
    std::string name_tail;  // NM:<tail> - appended to the base name of every named output (names that contain or end in ".part" ...)

    Output new_target(bool named, int& fd_out, std::string& name_out) {
        Output o;
        o.named = named;
        o.keep_fd = -1;
        if (named) {
            ensure_tmpdir();
            o.name = g_tmpdir + "/s" + std::to_string(line_no) + "_o" + std::to_string(serial++) + name_tail;
            name_out = o.name;
        } else {
            int fd = memfd_create(("out" + std::to_string(serial++) + "_").c_str(), 0);
            o.keep_fd = dup(fd);
            fd_out = fd;
        }
        return o;
    }

    std::string suffix() const {
        if (comp == CDNS::CborOutputCompression::GZIP) return ".gz";
        if (comp == CDNS::CborOutputCompression::XZ) return ".xz";
        return "";
    }

    std::string collect() {
        std::string out;
        for (std::size_t i = 0; i < outs.size(); i++) {
            std::string data;
            if (outs[i].snapped) {
                if (!outs[i].snap_exists) { out += " MISSING"; continue; }
                data = outs[i].snap;
            } else if (outs[i].named) {
                bool ex = false;
                data = slurp_file(outs[i].name + suffix(), ex);
                if (!ex) {
                    bool ex2 = false;
                    std::string part = slurp_file(outs[i].name + suffix() + ".part", ex2);
                    out += ex2 ? " PART:" + (part.empty() ? std::string("-") : vh::to_hex(part)) : std::string(" MISSING");
                    if (!g_keep_files) unlink((outs[i].name + suffix() + ".part").c_str());
                    continue;
                }
                if (!g_keep_files) unlink((outs[i].name + suffix()).c_str());
            } else if (outs[i].keep_fd < 0) {
                out += " NONE";          // the destination of a refused rotation
                continue;
            } else {
                data = slurp_fd(outs[i].keep_fd);
                close(outs[i].keep_fd);
            }
            out += " " + (data.empty() ? std::string("-") : vh::to_hex(data));
        }
        return out;
    }
};

}  // namespace
void (*vh::g_api_hook)(const char*) = nullptr;
namespace {

// (os layer, mode stk) length of the encoding of a copy of the exporter's buffered block / of the file header, on a scratch encoder
std::size_t scratch_block_len(CDNS::CdnsBlock& b) {
    if (b.get_item_count() == 0) return 0;
    CDNS::CdnsBlock copy(b);
    int fd = memfd_create("scratch", 0);
    std::size_t n = 0;
    { CDNS::CdnsEncoder enc(fd, CDNS::CborOutputCompression::NO_COMPRESSION); n = copy.write(enc); }
    return n;
}
std::size_t scratch_header_len(CDNS::FilePreamble& fp) {
    int fd = memfd_create("scratch", 0);
    std::size_t n = 0;
    { CDNS::CdnsEncoder enc(fd, CDNS::CborOutputCompression::NO_COMPRESSION);
      n = enc.write_array_start(3) + enc.write_textstring("C-DNS") + fp.write(enc) + enc.write_indef_array_start(); }
    return n;
}
void api_note(const std::string& s) { if (vh::g_api_hook) vh::g_api_hook(s.c_str()); }

std::string run_session(const std::string& line, int line_no) {
    Session S;
    S.line_no = line_no;
    std::string res = "I";
    auto toks = vh::split(line, ' ');
    for (std::size_t ti = 1; ti < toks.size(); ti++) {
        const std::string& tok = toks[ti];
        if (tok.empty()) continue;
        std::size_t c = tok.find(':');
        std::string op = c == std::string::npos ? tok : tok.substr(0, c);
        std::string arg = c == std::string::npos ? "" : tok.substr(c + 1);
        std::string r;
        if (vh::g_api_hook && (op == "Q" || op == "A" || op == "M" || op == "W" || op == "R" || op == "D")) vh::g_api_hook(tok.c_str());
        try {
            if (op == "FP") {
                rec::KV kv = rec::parse_kv(arg);
                if (kv.count("maj")) S.fp.m_major_format_version = static_cast<uint8_t>(rec::U(kv["maj"]));
                if (kv.count("min")) S.fp.m_minor_format_version = static_cast<uint8_t>(rec::U(kv["min"]));
                if (kv.count("priv")) S.fp.m_private_version = static_cast<uint8_t>(rec::U(kv["priv"]));
                else S.fp.m_private_version = boost::none;
                continue;
            } else if (op == "BP") {
                S.bps.push_back(rec::parse_bp(rec::parse_kv(arg)));
                continue;
            } else if (op == "NM") {
                S.name_tail = arg;
                continue;
            } else if (op == "X") {
                auto a = vh::split(arg, ':');
                S.comp = a[1] == "g" ? CDNS::CborOutputCompression::GZIP : a[1] == "x" ? CDNS::CborOutputCompression::XZ
                                                                                     : CDNS::CborOutputCompression::NO_COMPRESSION;
                if (!S.bps.empty()) S.fp.m_block_parameters = S.bps;
                int fd = -1; std::string name;
                Output o = S.new_target(a[0] == "nm", fd, name);
                S.outs.push_back(o);
                if (o.named) S.exp = std::make_unique<CDNS::CdnsExporter>(S.fp, name, S.comp);
                else S.exp = std::make_unique<CDNS::CdnsExporter>(S.fp, fd, S.comp);
                if (vh::g_api_hook) api_note("=H" + std::to_string(scratch_header_len(S.exp->m_file_preamble)));
                continue;
            } else if (op == "Q" || op == "A" || op == "M") {
                std::size_t sc = arg.find(';');
                std::string body = sc == std::string::npos ? arg : arg.substr(0, sc);
                boost::optional<CDNS::BlockStatistics> st;
                if (sc != std::string::npos) st = rec::parse_stats(rec::parse_kv(arg.substr(sc + 1)));
                rec::KV kv = rec::parse_kv(body);
                std::size_t w = 0;
                const bool first = vh::g_api_hook && S.exp->m_blocks_written == 0;
                try {
                    if (op == "Q") w = S.exp->buffer_qr(rec::parse_qr(kv), st);
                    else if (op == "A") w = S.exp->buffer_aec(rec::parse_aec(kv), st);
                    else w = S.exp->buffer_mm(rec::parse_mm(kv), st);
                } catch (...) {
                    if (vh::g_api_hook) api_note("=L" + std::to_string(scratch_block_len(S.exp->m_block)));     // the block it tried to flush
                    throw;
                }
                if (vh::g_api_hook && w > 0) api_note("=L" + std::to_string(w - (first ? scratch_header_len(S.exp->m_file_preamble) : 0)));
                r = std::to_string(w);
            } else if (op == "W") {
                if (vh::g_api_hook) api_note("=L" + std::to_string(scratch_block_len(S.exp->m_block)));
                r = std::to_string(S.exp->write_block());
            } else if (op == "R") {
                auto a = vh::split(arg, ':');
                int fd = -1; std::string name;
                if (a[0] == "same" && !S.outs.empty() && S.outs.back().named) {
                    // rotation to the name of the output that is open: that output is completed and becomes visible under the
                    // name, a new one is started (which will replace it when it is closed in turn)
                    std::size_t cur = S.outs.size() - 1;
                    name = S.outs[cur].name;
                    Output o; o.named = true; o.keep_fd = -1; o.name = name;
                    S.outs.push_back(o);
                    auto snapshot = [&]() { S.outs[cur].snapped = true; S.outs[cur].snap = slurp_file(name + S.suffix(), S.outs[cur].snap_exists); };
                    std::size_t w = 0;
                    try { w = S.exp->rotate_output(name, a[1] == "1"); } catch (...) { snapshot(); throw; }
                    snapshot();
                    r = std::to_string(w);
                } else if (a[0] == "bad") {
                    // rotation to a destination that cannot be opened: an invalid descriptor / a file in a directory that does not exist
                    Output o; o.named = false; o.keep_fd = -1;
                    S.outs.push_back(o);
                    bool named_session = !S.outs.empty() && S.outs.front().named;
                    std::size_t w = named_session ? S.exp->rotate_output(std::string("/nonexistent-dir-cdnsvh/out"), a[1] == "1")
                                                  : S.exp->rotate_output(-1, a[1] == "1");
                    r = std::to_string(w);
                } else {
                if (vh::g_api_hook) api_note("=L" + std::to_string(scratch_block_len(S.exp->m_block)));
                Output o = S.new_target(a[0] == "nm", fd, name);
                S.outs.push_back(o);
                std::size_t w = o.named ? S.exp->rotate_output(name, a[1] == "1") : S.exp->rotate_output(fd, a[1] == "1");
                r = std::to_string(w);
                }
            } else if (op == "WB" || op == "WBR") {
                // directly built block: WB:<parameters index>:<item letters>
                // WBR:<parameters index>:<letters>:<letters>  the SAME block object written, cleared, refilled and written again
                auto a = vh::split(arg, ':');
                CDNS::index_t k = static_cast<CDNS::index_t>(rec::U(a[0]));
                CDNS::CdnsBlock blk(S.exp->m_file_preamble.get_block_parameters(k), k);
                auto fill = [&](CDNS::CdnsBlock& blk, const std::string& letters) {
                for (char c : letters) {
                    CDNS::QueryResponse q;
                    CDNS::MalformedMessage m;
                    switch (c) {
                        case 'e': blk.add_question_response_record(q, boost::none); break;
                        case 's': q.qr_signature_index = blk.add_qr_signature(CDNS::QueryResponseSignature()); blk.add_question_response_record(q, boost::none); break;
                        case 'r': q.response_processing_data = CDNS::ResponseProcessingData(); blk.add_question_response_record(q, boost::none); break;
                        case 'x': q.query_extended = CDNS::QueryResponseExtended(); blk.add_question_response_record(q, boost::none); break;
                        case 'l': { CDNS::QueryResponseExtended e; e.question_index = blk.add_question_list(std::vector<CDNS::index_t>());
                                    e.answer_index = blk.add_rr_list(std::vector<CDNS::index_t>()); q.response_extended = e;
                                    blk.add_question_response_record(q, boost::none); break; }
                        case 'p': q.client_port = 53; blk.add_question_response_record(q, boost::none); break;
                        case 'm': m.message_data_index = blk.add_malformed_message_data(CDNS::MalformedMessageData()); blk.add_malformed_message(m, boost::none); break;
                        case 'n': blk.add_malformed_message(m, boost::none); break;
                        case 'a': { CDNS::AddressEventCount ae; ae.ae_type = CDNS::AddressEventTypeValues::tcp_reset;
                                    ae.ae_address_index = blk.add_ip_address(std::string("\x01\x02\x03\x04", 4)); blk.add_address_event_count(ae, boost::none); break; }
                        case 't': blk.m_block_statistics = CDNS::BlockStatistics(); break;
                        // the same items through the overloads' statistics argument, and items carrying a time offset
                        case 'P': { q.client_port = 53; CDNS::BlockStatistics st; st.qr_data_items = 1; blk.add_question_response_record(q, st); break; }
                        case 'A': { CDNS::AddressEventCount ae; ae.ae_type = CDNS::AddressEventTypeValues::tcp_reset;
                                    ae.ae_address_index = blk.add_ip_address(std::string("\x01\x02\x03\x04", 4)); CDNS::BlockStatistics st; st.processed_messages = 2;
                                    blk.add_address_event_count(ae, st); break; }
                        case 'N': { m.client_port = 53; CDNS::BlockStatistics st; st.malformed_items = 1; blk.add_malformed_message(m, st); break; }
                        case 'T': { q.time_offset = CDNS::Timestamp(1700000000 + (ti % 3), 5); blk.add_question_response_record(q, boost::none); break; }
                        case 'U': { m.time_offset = CDNS::Timestamp(1700000000 - (ti % 2), 0); blk.add_malformed_message(m, boost::none); break; }
                        default: break;
                    }
                }
                };
                fill(blk, a[1]);
                std::size_t w = S.exp->write_block(blk);
                if (op == "WBR") {
                    blk.clear();
                    fill(blk, a.size() > 2 ? a[2] : std::string());
                    w += S.exp->write_block(blk);
                }
                r = std::to_string(w);
            } else if (op == "ABA") {
                // the argument is a reference INTO the exporter's own preamble (parameter set #arg duplicated)
                CDNS::BlockParameters& own = S.exp->m_file_preamble.m_block_parameters.at(rec::U(arg));
                r = "i" + std::to_string(S.exp->add_block_parameters(own));
            } else if (op == "AB") {
                r = "i" + std::to_string(S.exp->add_block_parameters(S.bps.at(rec::U(arg))));
            } else if (op == "EH") {
                // edit the hints of the active parameter set in place (documented accessor get_active_block_parameters_ref())
                auto a = vh::split(arg, ':');
                CDNS::StorageHints& h = S.exp->get_active_block_parameters_ref().storage_parameters.storage_hints;
                h.query_response_hints = static_cast<uint32_t>(rec::U(a[0]));
                h.query_response_signature_hints = static_cast<uint32_t>(rec::U(a[1]));
                h.rr_hints = static_cast<uint8_t>(rec::U(a[2]));
                h.other_data_hints = static_cast<uint8_t>(rec::U(a[3]));
                r = "ok";
            } else if (op == "SA") {
                r = S.exp->set_active_block_parameters(static_cast<CDNS::index_t>(rec::U(arg))) ? "t" : "f";
            } else if (op == "C") {
                r = "c=" + std::to_string(S.exp->get_block_item_count()) + "." + std::to_string(S.exp->get_block_qr_count()) + "." +
                    std::to_string(S.exp->get_block_aec_count()) + "." + std::to_string(S.exp->get_block_mm_count()) + "." +
                    std::to_string(S.exp->get_blocks_written_count());
            } else if (op == "D") {
                S.exp.reset();
                continue;
            } else {
                r = "bad-op";
            }
        } catch (CDNS::CborOutputException&) { r = "E:out"; }
        catch (std::exception&) { r = "E:other"; }
        res += " " + r;
    }
    S.exp.reset();
    res += " |" + S.collect();
    return res;
}

// ------------------------------------------------------------------------------------------
std::string dump_block(CDNS::CdnsBlockRead& b) {
    std::string o = "B{pi=" + std::to_string(b.get_block_parameters_index());
    if (b.m_block_statistics) o += ";st=" + rec::show_stats(*b.m_block_statistics);
    bool end = false;
    while (true) {
        CDNS::GenericQueryResponse q = b.read_generic_qr(end);
        if (end) break;
        o += ";" + rec::show_qr(q);
    }
    std::vector<std::string> aecs;
    while (true) {
        CDNS::GenericAddressEventCount a = b.read_generic_aec(end);
        if (end) break;
        aecs.push_back(rec::show_aec(a));
    }
    std::sort(aecs.begin(), aecs.end());
    for (auto& a : aecs) o += ";" + a;
    while (true) {
        CDNS::GenericMalformedMessage m = b.read_generic_mm(end);
        if (end) break;
        o += ";" + rec::show_mm(m);
    }
    return o + "}";
}

std::string read_file(const std::string& kind_in, const std::string& data) {
    // a trailing '+' (s+, f+): the application goes on calling read_block() after the first exception
    const bool go_on = !kind_in.empty() && kind_in.back() == '+';
    const std::string kind = go_on ? kind_in.substr(0, kind_in.size() - 1) : kind_in;
    std::unique_ptr<std::istream> in;
    int mfd = -1;
    int pfd[2] = {-1, -1};
    std::thread feeder;
    if (kind == "p") {
        // a pipe fed by another thread while the reader reads
        signal(SIGPIPE, SIG_IGN);
        if (pipe(pfd) != 0) return "I E:harness";
        int wfd = pfd[1];
        feeder = std::thread([wfd, &data]() {
            std::size_t off = 0;
            while (off < data.size()) { ssize_t w = ::write(wfd, data.data() + off, std::min<std::size_t>(3000, data.size() - off)); if (w <= 0) break; off += w; }
            close(wfd);
        });
        in = std::make_unique<std::ifstream>("/proc/self/fd/" + std::to_string(pfd[0]), std::ifstream::binary);
    } else if (kind == "f") {
        mfd = memfd_create("rd", 0);
        std::size_t off = 0;
        while (off < data.size()) { ssize_t w = ::write(mfd, data.data() + off, data.size() - off); if (w <= 0) break; off += w; }
        in = std::make_unique<std::ifstream>("/proc/self/fd/" + std::to_string(mfd), std::ifstream::binary);
    } else in = std::make_unique<std::istringstream>(data);
    std::string out = "I ";
    std::unique_ptr<CDNS::CdnsReader> rdr;
    try {
        rdr.reset(new CDNS::CdnsReader(*in));
        CDNS::CdnsReader& reader = *rdr;
        const std::string preamble_at_open = rec::show_preamble(reader.m_file_preamble);
        out += preamble_at_open;
        bool eof = false;
        if (kind == "R") {
            // ONE block object for the whole file: every block is read into it (CdnsBlockRead::read on a used object) ...
            CDNS::CdnsBlockRead b;
            while (true) {
                if (reader.m_indef_blocks && reader.m_decoder.peek_type() == CDNS::CborType::BREAK) { reader.m_decoder.read_break(); break; }
                if (!reader.m_indef_blocks && reader.m_blocks_read == reader.m_blocks_count) break;
                b.read(reader.m_decoder, reader.m_file_preamble.m_block_parameters);
                reader.m_blocks_read++;
                out += " " + dump_block(b);
            }
        } else if (kind == "A") {
            // ... or every block is ASSIGNED to it (block = reader.read_block(eof), the loop of the documentation)
            CDNS::CdnsBlockRead b;
            while (true) {
                b = reader.read_block(eof);
                if (eof) break;
                out += " " + dump_block(b);
            }
        } else
        while (true) {
            CDNS::CdnsBlockRead b = reader.read_block(eof);
            if (eof) break;
            out += " " + dump_block(b);
        }
        // the reader's copy of the file preamble is the application's to inspect at any time: reading blocks must not change it
        if (rec::show_preamble(reader.m_file_preamble) != preamble_at_open) out += " PREAMBLE-NOW:" + rec::show_preamble(reader.m_file_preamble);
        out += " EOF";
    } catch (CDNS::CdnsDecoderEnd&) { out += " E:end"; }
    catch (CDNS::CdnsDecoderException&) { out += " E:dec"; }
    catch (std::exception&) { out += " E:other"; }
    if (go_on && rdr && out.size() >= 6 && out.compare(out.size() - 6, 2, " E") == 0) {
        // every further call must report the condition again: it may neither hand out a block nor claim a clean end of the file
        unsigned more = 6 + static_cast<unsigned>(std::min<uint64_t>(rdr->m_blocks_count, 40));
        for (unsigned i = 0; i < more; i++) {
            try {
                bool eof = false;
                CDNS::CdnsBlockRead b = rdr->read_block(eof);
                out += eof ? " +EOF" : " +B";
                if (eof) break;
            } catch (CDNS::CdnsDecoderEnd&) { out += " +E:end"; }
            catch (CDNS::CdnsDecoderException&) { out += " +E:dec"; }
            catch (std::exception&) { out += " +E:other"; }
        }
    }
    rdr.reset();
    if (feeder.joinable()) { in.reset(); close(pfd[0]); feeder.join(); }
    if (mfd >= 0) close(mfd);
    return out;
}

}  // namespace

std::string vh::exp_session(const std::string& line, int line_no, const std::string& fixed_dir, bool keep_files) {
    if (!fixed_dir.empty()) { g_tmpdir = fixed_dir; g_tmpdir_fixed = true; }
    g_keep_files = keep_files;
    return run_session(line, line_no);
}

int vh::run_exp(int, char**) {
    std::atexit(cleanup_tmpdir);
    std::string line;
    int n = 0;
    while (std::getline(std::cin, line)) std::cout << run_session(line, n++) << std::endl;
    cleanup_tmpdir();
    g_tmpdir.clear();
    return 0;
}

int vh::run_rd(int, char**) {
    std::string line;
    while (std::getline(std::cin, line)) {
        auto a = vh::split(line, ' ');
        if (a.size() < 3) { std::cout << "bad-op\n"; continue; }
        std::string data = vh::from_hex(a[2]);
        if (a[0] == "rdc" && a.size() >= 4) {
            // many cut points of one file:  rdc <kind> <hex> <n1,n2,...>  ->  answers joined by " @@ "
            std::string out;
            bool first = true;
            for (const std::string& c : vh::split(a[3], ',')) {
                std::size_t n = std::min<std::size_t>(data.size(), std::strtoull(c.c_str(), nullptr, 10));
                if (!first) out += " @@ ";
                // one digest per cut (the dumps of thousands of cuts of a large file would be gigabytes); `rd <kind> <hex> <n>` gives the full answer
                out += vh::digest(read_file(a[1], data.substr(0, n)));
                first = false;
            }
            std::cout << out << std::endl;
            continue;
        }
        if (a.size() >= 4) data = data.substr(0, std::min<std::size_t>(data.size(), std::strtoull(a[3].c_str(), nullptr, 10)));
        std::cout << read_file(a[1], data) << std::endl;
    }
    return 0;
}
