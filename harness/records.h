// Textual record format shared by the exporter / reader layers (and by the Python generator and the
// Lean independent reader): TAG{key=value,...}; strings are 'x'+hex; absent members are omitted.
#pragma once
#include "common.h"
#include "cdns.h"
#include <map>

namespace rec {

typedef std::map<std::string, std::string> KV;

inline KV parse_kv(const std::string& s) {
    KV kv;
    if (s.empty()) return kv;
    for (const std::string& f : vh::split(s, ',')) {
        if (f.empty()) continue;
        std::size_t e = f.find('=');
        if (e == std::string::npos) kv[f] = "";
        else kv[f.substr(0, e)] = f.substr(e + 1);
    }
    return kv;
}

inline uint64_t U(const std::string& s) { return std::strtoull(s.c_str(), nullptr, 10); }
inline int64_t I(const std::string& s) { return std::strtoll(s.c_str(), nullptr, 10); }
inline std::string X(const std::string& s) { return vh::from_hex(s.substr(1)); }          // "x.."
inline std::string toX(const std::string& s) { return "x" + vh::to_hex(s); }

inline CDNS::Timestamp parse_ts(const std::string& s) {
    auto p = vh::split(s, '.');
    return CDNS::Timestamp(U(p[0]), U(p[1]));
}
inline std::string show_ts(const CDNS::Timestamp& t) { return std::to_string(t.m_secs) + "." + std::to_string(t.m_ticks); }

inline std::vector<CDNS::GenericResourceRecord> parse_rrs(const std::string& s) {
    std::vector<CDNS::GenericResourceRecord> out;
    if (s.empty()) return out;
    for (const std::string& r : vh::split(s, '+')) {
        auto p = vh::split(r, '~');
        CDNS::GenericResourceRecord g;
        g.name = X(p[0]);
        g.classtype.type = static_cast<uint16_t>(U(p[1]));
        g.classtype.class_ = static_cast<uint16_t>(U(p[2]));
        if (p[3] != "-") g.ttl = static_cast<uint32_t>(U(p[3]));
        if (p[4] != "-") g.rdata = X(p[4]);
        out.push_back(g);
    }
    return out;
}
inline std::string show_rrs(const std::vector<CDNS::GenericResourceRecord>& v) {
    std::string o;
    for (std::size_t i = 0; i < v.size(); i++) {
        if (i) o += "+";
        o += toX(v[i].name) + "~" + std::to_string(v[i].classtype.type) + "~" + std::to_string(v[i].classtype.class_) + "~" +
             (v[i].ttl ? std::to_string(*v[i].ttl) : std::string("-")) + "~" + (v[i].rdata ? toX(*v[i].rdata) : std::string("-"));
    }
    return o;
}

inline boost::optional<CDNS::BlockStatistics> parse_stats(const KV& kv) {
    auto it = kv.find("st");
    if (it == kv.end()) return boost::none;
    CDNS::BlockStatistics s;
    auto p = vh::split(it->second, '.');
    if (p.size() == 6) {
        if (p[0] != "-") s.processed_messages = U(p[0]);
        if (p[1] != "-") s.qr_data_items = U(p[1]);
        if (p[2] != "-") s.unmatched_queries = U(p[2]);
        if (p[3] != "-") s.unmatched_responses = U(p[3]);
        if (p[4] != "-") s.discarded_opcode = U(p[4]);
        if (p[5] != "-") s.malformed_items = U(p[5]);
    }
    return s;
}
template <typename T> std::string oshow(const boost::optional<T>& o) { return o ? std::to_string(*o) : std::string("-"); }
inline std::string show_stats(const CDNS::BlockStatistics& s) {
    return oshow(s.processed_messages) + "." + oshow(s.qr_data_items) + "." + oshow(s.unmatched_queries) + "." +
           oshow(s.unmatched_responses) + "." + oshow(s.discarded_opcode) + "." + oshow(s.malformed_items);
}

#define OPT_NUM(key, member, T) { auto it = kv.find(key); if (it != kv.end()) g.member = static_cast<T>(U(it->second)); }
#define OPT_STR(key, member) { auto it = kv.find(key); if (it != kv.end()) g.member = X(it->second); }
#define OPT_RRS(key, member) { auto it = kv.find(key); if (it != kv.end()) g.member = parse_rrs(it->second); }

inline CDNS::GenericQueryResponse parse_qr(const KV& kv) {
    CDNS::GenericQueryResponse g;
    { auto it = kv.find("ts"); if (it != kv.end()) g.ts = parse_ts(it->second); }
    OPT_STR("cip", client_ip) OPT_NUM("cport", client_port, uint16_t) OPT_NUM("tid", transaction_id, uint16_t)
    OPT_STR("sip", server_ip) OPT_NUM("sport", server_port, uint16_t)
    OPT_NUM("tf", qr_transport_flags, CDNS::QueryResponseTransportFlagsMask)
    OPT_NUM("qt", qr_type, CDNS::QueryResponseTypeValues)
    OPT_NUM("sf", qr_sig_flags, CDNS::QueryResponseFlagsMask)
    OPT_NUM("op", query_opcode, uint8_t) OPT_NUM("df", qr_dns_flags, CDNS::DNSFlagsMask)
    OPT_NUM("qrc", query_rcode, uint16_t)
    { auto it = kv.find("ct"); if (it != kv.end()) { auto p = vh::split(it->second, '.'); CDNS::ClassType c; c.type = static_cast<uint16_t>(U(p[0])); c.class_ = static_cast<uint16_t>(U(p[1])); g.query_classtype = c; } }
    OPT_NUM("qd", query_qdcount, uint16_t) OPT_NUM("an", query_ancount, uint16_t) OPT_NUM("ns", query_nscount, uint16_t)
    OPT_NUM("ar", query_arcount, uint16_t) OPT_NUM("ev", query_edns_version, uint8_t) OPT_NUM("us", query_udp_size, uint16_t)
    OPT_STR("ord", query_opt_rdata) OPT_NUM("rrc", response_rcode, uint16_t) OPT_NUM("hl", client_hoplimit, uint8_t)
    { auto it = kv.find("rd"); if (it != kv.end()) g.response_delay = I(it->second); }
    OPT_STR("qn", query_name) OPT_NUM("qs", query_size, std::size_t) OPT_NUM("rs", response_size, std::size_t)
    OPT_STR("bw", bailiwick) OPT_NUM("pf", processing_flags, CDNS::ResponseProcessingFlagsMask)
    OPT_RRS("qq", query_questions) OPT_RRS("qa", query_answers) OPT_RRS("qu", query_authority) OPT_RRS("qx", query_additional)
    OPT_RRS("rq", response_questions) OPT_RRS("ra", response_answers) OPT_RRS("ru", response_authority) OPT_RRS("rx", response_additional)
    OPT_STR("asn", asn) OPT_STR("cc", country_code)
    { auto it = kv.find("rtt"); if (it != kv.end()) g.round_trip_time = I(it->second); }
    return g;
}

struct Out {
    std::string s;
    bool first = true;
    void add(const std::string& k, const std::string& v) { if (!first) s += ","; s += k + "=" + v; first = false; }
    template <typename T> void num(const std::string& k, const boost::optional<T>& o) { if (o) add(k, std::to_string(static_cast<uint64_t>(*o))); }
    void inum(const std::string& k, const boost::optional<int64_t>& o) { if (o) add(k, std::to_string(*o)); }
    void str(const std::string& k, const boost::optional<std::string>& o) { if (o) add(k, toX(*o)); }
    void rrs(const std::string& k, const boost::optional<std::vector<CDNS::GenericResourceRecord>>& o) { if (o && !o->empty()) add(k, show_rrs(*o)); }
};

inline std::string show_qr(const CDNS::GenericQueryResponse& g) {
    Out o;
    if (g.ts) o.add("ts", show_ts(*g.ts));
    o.str("cip", g.client_ip); o.num("cport", g.client_port); o.num("tid", g.transaction_id);
    o.str("sip", g.server_ip); o.num("sport", g.server_port); o.num("tf", g.qr_transport_flags); o.num("qt", g.qr_type);
    o.num("sf", g.qr_sig_flags); o.num("op", g.query_opcode); o.num("df", g.qr_dns_flags); o.num("qrc", g.query_rcode);
    if (g.query_classtype) o.add("ct", std::to_string(g.query_classtype->type) + "." + std::to_string(g.query_classtype->class_));
    o.num("qd", g.query_qdcount); o.num("an", g.query_ancount); o.num("ns", g.query_nscount); o.num("ar", g.query_arcount);
    o.num("ev", g.query_edns_version); o.num("us", g.query_udp_size); o.str("ord", g.query_opt_rdata); o.num("rrc", g.response_rcode);
    o.num("hl", g.client_hoplimit); o.inum("rd", g.response_delay); o.str("qn", g.query_name);
    o.num("qs", g.query_size); o.num("rs", g.response_size); o.str("bw", g.bailiwick); o.num("pf", g.processing_flags);
    o.rrs("qq", g.query_questions); o.rrs("qa", g.query_answers); o.rrs("qu", g.query_authority); o.rrs("qx", g.query_additional);
    o.rrs("rq", g.response_questions); o.rrs("ra", g.response_answers); o.rrs("ru", g.response_authority); o.rrs("rx", g.response_additional);
    o.str("asn", g.asn); o.str("cc", g.country_code); o.inum("rtt", g.round_trip_time);
    return "Q{" + o.s + "}";
}

inline CDNS::GenericAddressEventCount parse_aec(const KV& kv) {
    CDNS::GenericAddressEventCount g;
    { auto it = kv.find("at"); if (it != kv.end()) g.ae_type = static_cast<CDNS::AddressEventTypeValues>(U(it->second)); }
    OPT_NUM("ac", ae_code, uint8_t) OPT_NUM("atf", ae_transport_flags, CDNS::QueryResponseTransportFlagsMask)
    { auto it = kv.find("ip"); if (it != kv.end()) g.ip_address = X(it->second); }
    { auto it = kv.find("n"); if (it != kv.end()) g.ae_count = U(it->second); }
    return g;
}
inline std::string show_aec(const CDNS::GenericAddressEventCount& g) {
    Out o;
    o.add("at", std::to_string(static_cast<unsigned>(g.ae_type)));
    o.num("ac", g.ae_code); o.num("atf", g.ae_transport_flags);
    o.add("ip", toX(g.ip_address)); o.add("n", std::to_string(g.ae_count));
    return "A{" + o.s + "}";
}

inline CDNS::GenericMalformedMessage parse_mm(const KV& kv) {
    CDNS::GenericMalformedMessage g;
    { auto it = kv.find("ts"); if (it != kv.end()) g.ts = parse_ts(it->second); }
    OPT_STR("cip", client_ip) OPT_NUM("cport", client_port, uint16_t) OPT_STR("sip", server_ip) OPT_NUM("sport", server_port, uint16_t)
    OPT_NUM("tf", mm_transport_flags, CDNS::QueryResponseTransportFlagsMask) OPT_STR("pl", mm_payload)
    return g;
}
inline std::string show_mm(const CDNS::GenericMalformedMessage& g) {
    Out o;
    if (g.ts) o.add("ts", show_ts(*g.ts));
    o.str("cip", g.client_ip); o.num("cport", g.client_port); o.str("sip", g.server_ip); o.num("sport", g.server_port);
    o.num("tf", g.mm_transport_flags); o.str("pl", g.mm_payload);
    return "M{" + o.s + "}";
}

// ---- block parameters / preamble ------------------------------------------------------------
inline std::vector<std::string> parse_xlist(const std::string& s) {
    std::vector<std::string> v;
    if (s.empty()) return v;
    for (const std::string& e : vh::split(s, '+')) v.push_back(X(e));
    return v;
}
inline std::string show_xlist(const std::vector<std::string>& v) {
    std::string o;
    for (std::size_t i = 0; i < v.size(); i++) { if (i) o += "+"; o += toX(v[i]); }
    return o;
}

inline CDNS::BlockParameters parse_bp(const KV& kv) {
    CDNS::BlockParameters bp;
    auto& sp = bp.storage_parameters;
    auto has = [&](const char* k) { return kv.find(k) != kv.end(); };
    auto get = [&](const char* k) { return kv.find(k)->second; };
    if (has("tps")) sp.ticks_per_second = U(get("tps"));
    if (has("max")) sp.max_block_items = U(get("max"));
    if (has("qrh")) sp.storage_hints.query_response_hints = static_cast<uint32_t>(U(get("qrh")));
    if (has("sigh")) sp.storage_hints.query_response_signature_hints = static_cast<uint32_t>(U(get("sigh")));
    if (has("rrh")) sp.storage_hints.rr_hints = static_cast<uint8_t>(U(get("rrh")));
    if (has("odh")) sp.storage_hints.other_data_hints = static_cast<uint8_t>(U(get("odh")));
    if (has("opc")) { sp.opcodes.clear(); if (!get("opc").empty()) for (auto& e : vh::split(get("opc"), '.')) sp.opcodes.push_back(static_cast<CDNS::OpCodes>(U(e))); }
    if (has("rrt")) { sp.rr_types.clear(); if (!get("rrt").empty()) for (auto& e : vh::split(get("rrt"), '.')) sp.rr_types.push_back(static_cast<CDNS::RrTypes>(U(e))); }
    if (has("sfl")) sp.storage_flags = static_cast<CDNS::StorageFlagsMask>(U(get("sfl")));
    if (has("cp4")) sp.client_address_prefix_ipv4 = static_cast<uint8_t>(U(get("cp4")));
    if (has("cp6")) sp.client_address_prefix_ipv6 = static_cast<uint8_t>(U(get("cp6")));
    if (has("sp4")) sp.server_address_prefix_ipv4 = static_cast<uint8_t>(U(get("sp4")));
    if (has("sp6")) sp.server_address_prefix_ipv6 = static_cast<uint8_t>(U(get("sp6")));
    if (has("sm")) sp.sampling_method = X(get("sm"));
    if (has("am")) sp.anonymization_method = X(get("am"));
    if (has("cp")) {
        CDNS::CollectionParameters cp;
        if (has("cqt")) cp.query_timeout = U(get("cqt"));
        if (has("cst")) cp.skew_timeout = U(get("cst"));
        if (has("csl")) cp.snaplen = U(get("csl"));
        if (has("cpr")) cp.promisc = get("cpr") == "1";
        if (has("cif")) cp.interfaces = parse_xlist(get("cif"));
        if (has("csa")) cp.server_address = parse_xlist(get("csa"));
        if (has("cvl") && !get("cvl").empty()) for (auto& e : vh::split(get("cvl"), '.')) cp.vlan_ids.push_back(static_cast<uint16_t>(U(e)));
        if (has("cfl")) cp.filter = X(get("cfl"));
        if (has("cgi")) cp.generator_id = X(get("cgi"));
        if (has("chi")) cp.host_id = X(get("chi"));
        bp.collection_parameters = cp;
    }
    return bp;
}

inline std::string show_bp(const CDNS::BlockParameters& bp) {
    Out o;
    const auto& sp = bp.storage_parameters;
    o.add("tps", std::to_string(sp.ticks_per_second));
    o.add("max", std::to_string(sp.max_block_items));
    o.add("qrh", std::to_string(sp.storage_hints.query_response_hints));
    o.add("sigh", std::to_string(sp.storage_hints.query_response_signature_hints));
    o.add("rrh", std::to_string(sp.storage_hints.rr_hints));
    o.add("odh", std::to_string(sp.storage_hints.other_data_hints));
    { std::string l; for (std::size_t i = 0; i < sp.opcodes.size(); i++) { if (i) l += "."; l += std::to_string(static_cast<unsigned>(sp.opcodes[i])); } o.add("opc", l); }
    { std::string l; for (std::size_t i = 0; i < sp.rr_types.size(); i++) { if (i) l += "."; l += std::to_string(static_cast<unsigned>(sp.rr_types[i])); } o.add("rrt", l); }
    o.num("sfl", sp.storage_flags); o.num("cp4", sp.client_address_prefix_ipv4); o.num("cp6", sp.client_address_prefix_ipv6);
    o.num("sp4", sp.server_address_prefix_ipv4); o.num("sp6", sp.server_address_prefix_ipv6);
    o.str("sm", sp.sampling_method); o.str("am", sp.anonymization_method);
    if (bp.collection_parameters) {
        const auto& cp = *bp.collection_parameters;
        o.add("cp", "1");
        o.num("cqt", cp.query_timeout); o.num("cst", cp.skew_timeout); o.num("csl", cp.snaplen);
        if (cp.promisc) o.add("cpr", *cp.promisc ? "1" : "0");
        if (!cp.interfaces.empty()) o.add("cif", show_xlist(cp.interfaces));
        if (!cp.server_address.empty()) o.add("csa", show_xlist(cp.server_address));
        if (!cp.vlan_ids.empty()) { std::string l; for (std::size_t i = 0; i < cp.vlan_ids.size(); i++) { if (i) l += "."; l += std::to_string(cp.vlan_ids[i]); } o.add("cvl", l); }
        o.str("cfl", cp.filter); o.str("cgi", cp.generator_id); o.str("chi", cp.host_id);
    }
    return "P{" + o.s + "}";
}

inline std::string show_preamble(const CDNS::FilePreamble& fp) {
    std::string o = "F{maj=" + std::to_string(fp.m_major_format_version) + ",min=" + std::to_string(fp.m_minor_format_version);
    if (fp.m_private_version) o += ",priv=" + std::to_string(*fp.m_private_version);
    o += "}";
    for (const auto& bp : fp.m_block_parameters) o += show_bp(bp);
    return o;
}

}  // namespace rec
