// OS layer (C15, C16): runs exporter sessions (same language as `exp`) with the output-related system calls of this
// process interposed: write / writev / rename are defined here (the dynamic linker resolves libstdc++'s and the
// library's calls to them), the real ones are reached through dlsym(RTLD_NEXT).
//
//   os full <session tokens>                 run; print the canonical syscall trace and the files left behind
//   os crash <k> <session tokens>            child process _exit()s immediately before its k-th write/writev/rename on an
//                                            output; print the files left behind
//   os fault <k> <kind> <persist> <session>  the k-th write/writev on an output fails (kind: enospc | eio | short), and
//                                            every later one too if persist = 1; print API results + files
//                                            (kind any-<kind>: on whichever output, not only the first)
//   os stk <k> <kind> <persist> <session>    as fault; prints instead of trace and files: S <@api-call markers and every data call wN<o|f|s>:<output>>
//   answer: I <api results> | T <trace> | F <file>=<hex> ...     (trace/files as applicable; N=<count of tracked calls>)
#include "common.h"
#include <dlfcn.h>
#include <errno.h>
#include <fcntl.h>
#include <sys/uio.h>
#include <sys/wait.h>
#include <sys/stat.h>
#include <unistd.h>
#include <dirent.h>
#include <limits.h>
#include <atomic>
#include <algorithm>
#include <fstream>
#include <sstream>

namespace {
typedef ssize_t (*write_fn)(int, const void*, size_t);
typedef ssize_t (*writev_fn)(int, const struct iovec*, int);
typedef int (*rename_fn)(const char*, const char*);
write_fn real_write = nullptr;
writev_fn real_writev = nullptr;
rename_fn real_rename = nullptr;

struct Cfg {
    bool active = false;
    std::string dir;            // outputs live here (named) or are memfds called "vhout"
    int crash_at = -1;          // _exit before the k-th tracked call (1-based)
    int fault_at = -1;
    int fault_kind = 0;         // 1 enospc, 2 eio, 3 short
    bool persist = false;
    bool any_output = false;    // faults hit whichever output the k-th call goes to (default: the first output only)
    int count = 0;              // tracked write/writev/rename calls so far
    int faults_fired = 0;
    bool tracing = false;
    std::string trace;
    std::string trace2;         // mode stk: API-call markers and every data call with its outcome
} cfg;

bool tracked_fd(int fd, std::string& path) {
    char link[64], buf[PATH_MAX];
    std::snprintf(link, sizeof link, "/proc/self/fd/%d", fd);
    ssize_t n = readlink(link, buf, sizeof buf - 1);
    if (n <= 0) return false;
    buf[n] = 0;
    path = buf;
    if (!cfg.dir.empty() && path.compare(0, cfg.dir.size(), cfg.dir) == 0) return true;
    return path.find("memfd:out") != std::string::npos;
}

// index of the output a tracked path belongs to ("…_o<k>…" for named outputs, "memfd:out<k>_" for descriptors)
int output_index(const std::string& path) {
    std::size_t p = path.find("memfd:out");
    if (p != std::string::npos) return std::atoi(path.c_str() + p + 9);
    p = path.rfind("_o");
    if (p != std::string::npos) return std::atoi(path.c_str() + p + 2);
    return -1;
}

bool path_open_in_process(const std::string& p) {
    DIR* d = opendir("/proc/self/fd");
    if (!d) return false;
    bool found = false;
    while (dirent* e = readdir(d)) {
        if (e->d_name[0] == '.') continue;
        std::string path;
        char link[300], buf[PATH_MAX];
        std::snprintf(link, sizeof link, "/proc/self/fd/%s", e->d_name);
        ssize_t n = readlink(link, buf, sizeof buf - 1);
        if (n > 0) { buf[n] = 0; if (p == buf) found = true; }
    }
    closedir(d);
    return found;
}

std::string base(const std::string& p) { std::size_t s = p.rfind('/'); return s == std::string::npos ? p : p.substr(s + 1); }

// returns: 0 proceed, 1 fail with errno set, 2 short write
int on_data_call(int fd, size_t total, const char* what) {
    std::string path;
    if (!cfg.active || !tracked_fd(fd, path)) return 0;
    cfg.count++;
    if (cfg.crash_at > 0 && cfg.count == cfg.crash_at) _exit(0);
    if (cfg.tracing) cfg.trace += std::string(what) + ":" + base(path) + ":" + std::to_string(total) + ",";
    if (cfg.fault_at > 0 && (cfg.any_output || output_index(path) == 0) && (cfg.count == cfg.fault_at || (cfg.persist && cfg.count > cfg.fault_at))) {
        cfg.faults_fired++;
        bool cut = cfg.fault_kind == 3 && total > 1;
        if (cfg.tracing) cfg.trace2 += "w" + std::to_string(total) + (cut ? "s:" : "f:") + std::to_string(output_index(path)) + ",";
        if (cut) return 2;
        errno = cfg.fault_kind == 2 ? EIO : ENOSPC;
        return 1;
    }
    if (cfg.tracing) cfg.trace2 += "w" + std::to_string(total) + "o:" + std::to_string(output_index(path)) + ",";
    return 0;
}
}  // namespace

extern "C" ssize_t write(int fd, const void* buf, size_t n) {
    if (!real_write) real_write = reinterpret_cast<write_fn>(dlsym(RTLD_NEXT, "write"));
    int d = on_data_call(fd, n, "w");
    if (d == 1) return -1;
    if (d == 2) return real_write(fd, buf, n / 2);
    return real_write(fd, buf, n);
}

extern "C" ssize_t writev(int fd, const struct iovec* iov, int cnt) {
    if (!real_writev) real_writev = reinterpret_cast<writev_fn>(dlsym(RTLD_NEXT, "writev"));
    size_t total = 0;
    for (int i = 0; i < cnt; i++) total += iov[i].iov_len;
    int d = on_data_call(fd, total, "w");
    if (d == 1) return -1;
    if (d == 2) {
        if (!real_write) real_write = reinterpret_cast<write_fn>(dlsym(RTLD_NEXT, "write"));
        return real_write(fd, iov[0].iov_base, iov[0].iov_len > 1 ? iov[0].iov_len / 2 : iov[0].iov_len);
    }
    return real_writev(fd, iov, cnt);
}

extern "C" int rename(const char* a, const char* b) {
    if (!real_rename) real_rename = reinterpret_cast<rename_fn>(dlsym(RTLD_NEXT, "rename"));
    if (cfg.active && !cfg.dir.empty() && std::string(a).compare(0, cfg.dir.size(), cfg.dir) == 0) {
        cfg.count++;
        if (cfg.crash_at > 0 && cfg.count == cfg.crash_at) _exit(0);
        if (cfg.tracing)
            cfg.trace += "mv:" + base(a) + ">" + base(b) + (path_open_in_process(a) ? ":OPEN" : ":closed") + ",";
    }
    return real_rename(a, b);
}

namespace {
std::string list_dir(const std::string& dir) {
    std::vector<std::string> names;
    if (DIR* d = opendir(dir.c_str())) {
        while (dirent* e = readdir(d)) if (e->d_name[0] != '.') names.push_back(e->d_name);
        closedir(d);
    }
    std::sort(names.begin(), names.end());
    std::string out;
    for (auto& n : names) {
        struct stat st;
        if (stat((dir + "/" + n).c_str(), &st) == 0 && S_ISDIR(st.st_mode)) continue;
        std::ifstream f(dir + "/" + n, std::ifstream::binary);
        std::stringstream ss; ss << f.rdbuf();
        std::string data = ss.str();
        out += " " + n + "=" + (data.empty() ? std::string("-") : vh::to_hex(data));
    }
    return out;
}
void wipe_dir(const std::string& dir) {
    if (DIR* d = opendir(dir.c_str())) {
        while (dirent* e = readdir(d)) if (e->d_name[0] != '.') { if (unlink((dir + "/" + e->d_name).c_str()) != 0) rmdir((dir + "/" + e->d_name).c_str()); }
        closedir(d);
    }
}
}  // namespace

namespace { void api_marker(const char* tok) {
    if (!cfg.tracing) return;
    if (tok[0] == '=') { cfg.trace2 += std::string(tok) + ","; return; }       // a note of the session runner (=H<len>, =L<len>)
    cfg.trace2 += std::string("@") + tok[0] + (tok[0] == 'R' ? std::string(1, tok[std::strlen(tok) - 1]) : std::string()) + ",";
} }

int vh::run_os(int, char**) {
    vh::g_api_hook = api_marker;
    const char* basedir = std::getenv("VERIF_TMP");
    std::string t = std::string(basedir ? basedir : "/tmp") + "/cdnsos-XXXXXX";
    std::vector<char> buf(t.begin(), t.end()); buf.push_back(0);
    if (!mkdtemp(buf.data())) { std::perror("mkdtemp"); return 3; }
    std::string dir = buf.data();
    std::string line;
    int n = 0;
    while (std::getline(std::cin, line)) {
        auto a = vh::split(line, ' ');
        if (a.size() < 3) { std::cout << "bad-op\n"; continue; }
        std::string mode = a[1];
        std::size_t skip = mode == "full" ? 2 : mode == "crash" ? 3 : 5;      // (fault and stk: k, kind, persist)
        std::string session = "exp";
        for (std::size_t i = skip; i < a.size(); i++) session += " " + a[i];
        // PRE:<name>=<hex> tokens (files that exist before the scenario) are consumed here
        wipe_dir(dir);
        std::string sess2 = "exp";
        for (const std::string& tok : vh::split(session, ' ')) {
            if (tok.rfind("PREDIR:", 0) == 0) {
                // a directory of that name (e.g. at '<output>.part': the temporary name cannot be opened)
                mkdir((dir + "/" + tok.substr(7)).c_str(), 0700);
            } else if (tok.rfind("PRE:", 0) == 0) {
                std::string kv = tok.substr(4);
                std::size_t e = kv.find('=');
                std::ofstream f(dir + "/" + kv.substr(0, e), std::ofstream::binary);
                std::string d = vh::from_hex(kv.substr(e + 1));
                f.write(d.data(), d.size());
            } else if (tok != "exp") sess2 += " " + tok;
        }
        cfg = Cfg();
        cfg.dir = dir;
        if (mode == "crash") {
            int k = std::atoi(a[2].c_str());
            std::cout.flush();
            pid_t pid = fork();
            if (pid == 0) {
                cfg.active = true; cfg.crash_at = k;
                vh::exp_session(sess2, 0, dir, true);
                _exit(7);   // the scenario has fewer than k tracked calls
            }
            int st = 0;
            waitpid(pid, &st, 0);
            std::cout << "I " << (WIFEXITED(st) ? (WEXITSTATUS(st) == 7 ? "completed" : "crashed-at-k") : "signal") << " | F" << list_dir(dir) << std::endl;
        } else {
            cfg.tracing = true;
            if (mode == "fault" || mode == "stk") {
                cfg.fault_at = std::atoi(a[2].c_str());
                std::string kind = a[3];
                if (kind.rfind("any-", 0) == 0) { cfg.any_output = true; kind = kind.substr(4); }
                cfg.fault_kind = kind == "eio" ? 2 : kind == "short" ? 3 : 1;
                cfg.persist = a[4] == "1";
            }
            cfg.active = true;
            std::string res = vh::exp_session(sess2, 0, dir, true);
            cfg.active = false;
            if (mode == "stk") std::cout << res << " | N=" << cfg.count << " fired=" << cfg.faults_fired << " | S " << cfg.trace2 << std::endl;
            else std::cout << res << " | N=" << cfg.count << " fired=" << cfg.faults_fired << " | T " << cfg.trace << " | F" << list_dir(dir) << std::endl;
        }
        n++;
    }
    wipe_dir(dir);
    rmdir(dir.c_str());
    return 0;
}
