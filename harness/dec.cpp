// Decoder layer (C07, C05): drives the real CDNS::CdnsDecoder.
//   dec <s|f|u>[+] <input-spec> <op>,<op>,...   ->  I r1;r2;...   (stops at the first exception; with '+' it goes on after E:end)
#include "common.h"
#include "cdns_decoder.h"
#include "cdns_encoder.h"
#include <sstream>
#include <fstream>
#include <sys/mman.h>
#include <unistd.h>
#include <memory>
#include <thread>
#include <signal.h>
#include <algorithm>
#include <iterator>

namespace {
std::string head_bstr(uint64_t n) {
    std::string h;
    auto put = [&](int k) { for (int i = k - 1; i >= 0; i--) h.push_back(static_cast<char>((n >> (8 * i)) & 0xff)); };
    if (n < 24) h.push_back(static_cast<char>(0x40 | n));
    else if (n < 256) { h.push_back(0x58); put(1); }
    else if (n < 65536) { h.push_back(0x59); put(2); }
    else if (n < 4294967296ULL) { h.push_back(0x5a); put(4); }
    else { h.push_back(0x5b); put(8); }
    return h;
}

bool parse_input(const std::string& spec, std::string& out) {
    for (const std::string& seg : vh::split(spec, '+')) {
        if (seg == "-") continue;
        if (!seg.empty() && (seg[0] == 'P' || seg[0] == 'R')) {
            auto p = vh::split(seg.substr(1), ':');
            uint64_t n = std::strtoull(p[0].c_str(), nullptr, 10), k = std::strtoull(p[1].c_str(), nullptr, 10);
            if (seg[0] == 'P') out += head_bstr(n);
            out += vh::pattern(n, k);
        } else out += vh::from_hex(seg);
    }
    return true;
}

std::string shown(const std::string& s) { return s.empty() ? std::string("-") : vh::to_hex(s); }

std::string session(const std::string& kind_arg, const std::string& spec, const std::string& ops) {
    // kinds "s+", "f+", "u+": the session goes on after an end-of-input error (the same decoder object is called again)
    bool cont = !kind_arg.empty() && kind_arg.back() == '+';
    std::string kind = cont ? kind_arg.substr(0, kind_arg.size() - 1) : kind_arg;
    std::string data;
    parse_input(spec, data);
    std::unique_ptr<std::istream> in;
    int mfd = -1;
    int pfd[2] = {-1, -1};
    std::thread feeder;
    if (kind == "s") in = std::make_unique<std::istringstream>(data);
    else if (kind == "f") {
        mfd = memfd_create("dec", 0);
        size_t off = 0;
        while (off < data.size()) { ssize_t w = ::write(mfd, data.data() + off, data.size() - off); if (w <= 0) break; off += w; }
        in = std::make_unique<std::ifstream>("/proc/self/fd/" + std::to_string(mfd), std::ifstream::binary);
    } else if (kind == "p") {
        // a pipe fed by another thread: bytes arrive while the decoder reads (in_avail() is 0 most of the time)
        signal(SIGPIPE, SIG_IGN);
        if (pipe(pfd) != 0) return "I E:harness";
        int wfd = pfd[1];
        feeder = std::thread([wfd, &data]() {
            std::size_t off = 0;
            while (off < data.size()) { ssize_t w = ::write(wfd, data.data() + off, std::min<std::size_t>(3000, data.size() - off)); if (w <= 0) break; off += w; }
            close(wfd);
        });
        in = std::make_unique<std::ifstream>("/proc/self/fd/" + std::to_string(pfd[0]), std::ifstream::binary);
    } else if (kind == "m") {
        in = std::make_unique<std::ifstream>("/nonexistent-dir-cdnsvh/missing", std::ifstream::binary);      // failbit set by the failed open
    } else if (kind == "e") {
        auto ss = std::make_unique<std::istringstream>(data);                                              // a stream already read to its end
        std::string sink((std::istreambuf_iterator<char>(*ss)), std::istreambuf_iterator<char>());
        char c; ss->read(&c, 1);                                                                             // eofbit | failbit
        in = std::move(ss);
    } else in = std::make_unique<std::ifstream>();     // never opened
    std::string out = "I ";
    try {
        CDNS::CdnsDecoder dec(*in);
        bool first = true;
        bool flip = false;      // the caller's out-parameter of read_array_start/read_map_start holds true / false alternately beforehand
        for (const std::string& op : vh::split(ops, ',')) {
            std::string r;
            try {
                if (op == "pk") r = std::to_string(static_cast<unsigned>(dec.peek_type()));
                else if (op == "ru") r = std::to_string(dec.read_unsigned());
                else if (op == "rn") r = std::to_string(dec.read_negative());
                else if (op == "ri") r = std::to_string(dec.read_integer());
                else if (op == "rb") r = dec.read_bool() ? "true" : "false";
                else if (op == "rbs") r = shown(dec.read_bytestring());
                else if (op == "rts") r = shown(dec.read_textstring());
                else if (op == "rbs#") r = vh::digest(dec.read_bytestring());
                else if (op == "rts#") r = vh::digest(dec.read_textstring());
                else if (op == "ras") { bool indef = (flip = !flip); uint64_t n = dec.read_array_start(indef); r = std::to_string(n) + "/" + (indef ? "true" : "false"); }
                else if (op == "rms") { bool indef = (flip = !flip); uint64_t n = dec.read_map_start(indef); r = std::to_string(n) + "/" + (indef ? "true" : "false"); }
                else if (op == "rbk") { dec.read_break(); r = "ok"; }
                else if (op == "sk") { dec.skip_item(); r = "ok"; }
                else r = "E:other";
            } catch (CDNS::CdnsDecoderEnd&) { r = "E:end"; }
            catch (CDNS::CdnsDecoderException&) { r = "E:dec"; }
            catch (std::exception&) { r = "E:other"; }
            if (!first) out += ";";
            out += r;
            first = false;
            if (r.rfind("E:", 0) == 0 && !(cont && r == "E:end")) break;
        }
    } catch (CDNS::CdnsDecoderEnd&) { out += "E:end(ctor)"; }
    catch (CDNS::CdnsDecoderException&) { out += "E:dec(ctor)"; }
    catch (std::exception&) { out += "E:other(ctor)"; }
    if (mfd >= 0) close(mfd);
    if (feeder.joinable()) { in.reset(); close(pfd[0]); feeder.join(); }
    return out;
}
}  // namespace

int vh::run_dec(int, char**) {
    std::string line;
    while (std::getline(std::cin, line)) {
        auto a = vh::split(line, ' ');
        if (a.size() != 4) { std::cout << "bad-op\n"; continue; }
        std::cout << session(a[1], a[2], a[3]) << "\n";
    }
    return 0;
}
