// Timestamp layer (C17): real CDNS::Timestamp arithmetic and the earliest-time bookkeeping of CdnsBlock.
//   ts off as at bs bt rate      -> I ok <int> | I throw
//   ts add s t off rate          -> I ok s.t | I throw s.t   (timestamp after the call)
//   ts cmp as at bs bt rate      -> I <lt> <le>
//   ts blk rate op...            -> I earliest|qr times|mm times|qr times read back|mm times read back
#include "common.h"
#include "cdns.h"
#include <fcntl.h>
#include <unistd.h>
#include <sstream>
#include <memory>

namespace {
struct CaptureWriter : public CDNS::BaseCborOutputWriter {
    explicit CaptureWriter(std::string* sink) : sink_(sink) {}
    void write(const char* p, std::size_t size) override { sink_->append(p, size); }
    void rotate_output(const boost::any&) override {}
    std::string* sink_;
};
std::string show(const CDNS::Timestamp& t) { return std::to_string(t.m_secs) + "." + std::to_string(t.m_ticks); }
std::string showo(const boost::optional<CDNS::Timestamp>& t) { return t ? show(*t) : std::string("-"); }
bool parse_ts(const std::string& s, boost::optional<CDNS::Timestamp>& out) {
    if (s == "-") { out = boost::none; return true; }
    auto p = vh::split(s, '.');
    out = CDNS::Timestamp(std::strtoull(p[0].c_str(), nullptr, 10), std::strtoull(p[1].c_str(), nullptr, 10));
    return true;
}

std::string blk(const std::vector<std::string>& a) {
    uint64_t rate = std::strtoull(a[2].c_str(), nullptr, 10);
    // hint settings are per block: taken from the first q / m op of the session
    bool time_hint = true, mm_enabled = true;
    for (size_t i = 3; i < a.size(); i++) {
        auto p = vh::split(a[i], ':');
        if (p[0] == "q") time_hint = p[2] == "1";
        if (p[0] == "m") mm_enabled = p[2] == "1";
    }
    CDNS::BlockParameters bp;
    bp.storage_parameters.ticks_per_second = rate;
    bp.storage_parameters.max_block_items = 1000000;
    uint32_t qh = CDNS::QueryResponseHintsMask::client_port;
    if (time_hint) qh |= CDNS::QueryResponseHintsMask::time_offset;
    bp.storage_parameters.storage_hints.query_response_hints = qh;
    bp.storage_parameters.storage_hints.other_data_hints =
        CDNS::OtherDataHintsMask::address_event_counts | (mm_enabled ? CDNS::OtherDataHintsMask::malformed_messages : 0);
    std::unique_ptr<CDNS::CdnsBlock> holder = std::make_unique<CDNS::CdnsBlock>(bp, 0);
    for (size_t i = 3; i < a.size(); i++) {
        auto p = vh::split(a[i], ':');
        CDNS::CdnsBlock& block = *holder;
        if (p[0] == "K") {
            // the block is replaced by a copy of itself (copy construction; the original is destroyed)
            std::unique_ptr<CDNS::CdnsBlock> cp = std::make_unique<CDNS::CdnsBlock>(block);
            holder = std::move(cp);
        } else if (p[0] == "k") {
            // ... by assignment into a fresh block
            std::unique_ptr<CDNS::CdnsBlock> nb = std::make_unique<CDNS::CdnsBlock>(bp, 0);
            *nb = block;
            holder = std::move(nb);
        } else if (p[0] == "q") {
            CDNS::GenericQueryResponse g;
            parse_ts(p[1], g.ts);
            if (p[3] == "1") g.client_port = 53;
            block.add_question_response_record(g);
        } else if (p[0] == "m") {
            CDNS::GenericMalformedMessage g;
            parse_ts(p[1], g.ts);
            if (p[3] == "1") g.client_port = 53;
            block.add_malformed_message(g);
        } else if (p[0] == "Q") {
            // directly built item: add_question_response_record(const QueryResponse&) with per-block statistics
            CDNS::QueryResponse q;
            parse_ts(p[1], q.time_offset);
            if (p[3] == "1") q.client_port = 53;
            CDNS::BlockStatistics st; st.processed_messages = 7;
            block.add_question_response_record(q, (i % 2) ? boost::optional<CDNS::BlockStatistics>(st) : boost::none);
        } else if (p[0] == "M") {
            CDNS::MalformedMessage m;
            parse_ts(p[1], m.time_offset);
            if (p[3] == "1") m.client_port = 53;
            CDNS::BlockStatistics st; st.malformed_items = 3;
            block.add_malformed_message(m, (i % 2) ? boost::optional<CDNS::BlockStatistics>(st) : boost::none);
        } else if (p[0] == "c") {
            block.clear();
        } else return "bad-op";
    }
    CDNS::CdnsBlock& block = *holder;
    std::string out = "I " + show(block.m_block_preamble.earliest_time) + "|";
    for (size_t i = 0; i < block.m_query_responses.size(); i++) out += (i ? "," : "") + showo(block.m_query_responses[i].time_offset);
    out += "|";
    for (size_t i = 0; i < block.m_malformed_messages.size(); i++) out += (i ? "," : "") + showo(block.m_malformed_messages[i].time_offset);
    // write the block and read it back with the library's reader
    std::string sink;
    {
        int fd = open("/dev/null", O_WRONLY);
        CDNS::CdnsEncoder enc(fd, CDNS::CborOutputCompression::NO_COMPRESSION);
        enc.m_cos = std::make_unique<CaptureWriter>(&sink);
        block.write(enc);
    }
    out += "|";
    try {
        std::istringstream is(sink);
        CDNS::CdnsDecoder dec(is);
        std::vector<CDNS::BlockParameters> bps{bp};
        CDNS::CdnsBlockRead rb(dec, bps);
        for (size_t i = 0; i < rb.m_query_responses.size(); i++) out += (i ? "," : "") + showo(rb.m_query_responses[i].time_offset);
        out += "|";
        for (size_t i = 0; i < rb.m_malformed_messages.size(); i++) out += (i ? "," : "") + showo(rb.m_malformed_messages[i].time_offset);
    } catch (std::exception& e) {
        out += std::string("EXC ") + e.what();
    }
    return out;
}

std::string one(const std::string& line) {
    auto a = vh::split(line, ' ');
    if (a.size() < 2) return "bad-op";
    auto U = [&](size_t i) { return std::strtoull(a[i].c_str(), nullptr, 10); };
    if (a[1] == "off" && a.size() == 7) {
        CDNS::Timestamp x(U(2), U(3)), y(U(4), U(5));
        try { int64_t r = x.get_time_offset(y, U(6)); return "I ok " + std::to_string(r); }
        catch (std::exception&) { return "I throw"; }
    }
    if (a[1] == "add" && a.size() == 6) {
        CDNS::Timestamp x(U(2), U(3));
        int64_t off = std::strtoll(a[4].c_str(), nullptr, 10);
        try { x.add_time_offset(off, U(5)); return "I ok " + show(x); }
        catch (std::exception&) { return "I throw " + show(x); }
    }
    if (a[1] == "cmp" && a.size() == 7) {
        CDNS::Timestamp x(U(2), U(3)), y(U(4), U(5));
        return std::string("I ") + ((x < y) ? "true" : "false") + " " + ((x <= y) ? "true" : "false");
    }
    if (a[1] == "blk" && a.size() >= 3) return blk(a);
    return "bad-op";
}
}  // namespace

int vh::run_ts(int, char**) {
    std::string line;
    while (std::getline(std::cin, line)) std::cout << one(line) << "\n";
    return 0;
}
