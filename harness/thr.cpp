// Thread layer (C20): independent exporter / reader / renderer workloads on distinct outputs, run sequentially and then
// concurrently (with injected yields); per-thread results must be identical.  Built with -fsanitize=thread.
//   thr <threads> <records per thread> <seed>   ->  I seq=<digest,...> par=<digest,...>
#include "common.h"
#include "records.h"
#include <thread>
#include <atomic>
#include <sstream>
#include <sys/mman.h>
#include <unistd.h>
#include <sched.h>

namespace {
std::string slurp(int fd) {
    std::string out;
    off_t size = lseek(fd, 0, SEEK_END);
    if (size <= 0) return out;
    out.resize(size);
    off_t off = 0;
    while (off < size) { ssize_t r = pread(fd, &out[off], size - off, off); if (r <= 0) break; off += r; }
    return out;
}

struct Rng { uint64_t x; uint64_t next() { x ^= x << 13; x ^= x >> 7; x ^= x << 17; return x; } };

// a C-DNS file with members the reader does not know (nested arrays, maps, tags, chunked strings) in the preamble, in the
// block and in a record: reading it exercises skip_item
const char* UNKNOWN_KEYS_FILE =
    "98037f62432d63444e537a00000000ffbf0201011a00000000039801bf00bf18001903e81b0000000000000002bf18001a0003ffff18011a0001ffff"
    "1802180318031803ff1803990006001900011b00000000000000021b0000000000000004190005190006010a3b00000000000006935a000000173abf"
    "129a3097ad96b442d6d1bdef4850c3f465442eb3001a000000049f0102031a000000041a000000051b00000000000000060718081809180a0b0c1900"
    "0d0e1a0000000f19001011121b000000000000001318141b0000000000000015190016171a000000181819181a1b000000000000001b1a0000001c18"
    "1d1b000000000000001e181f18201900211900221b00000000000000231b0000000000000024182518261b00000000000000271828190029182a1b00"
    "0000000000002b1a0000002c1a0000002d19002e19002f1b000000000000003018311b00000000000000321a000000331a00000034183518371a0000"
    "003818391a0000003a183b19003c183d1a0000003e1a0000003f1a000000401a000000411863186419006518661a0000006718681900691a0000006a"
    "186b186c186d18f91b00000000000000fa1a000000fb18fc1900fd1900fe1900ff1901001901011901021901031901041b00000000000080001a0000"
    "8001ffffff3a00000e397f7a000000017c7b00000000000000007a00000001897b00000000000000029296ff00011b7fffffffffffffff41f4ff81bf"
    "02bf1a000000009f440a0000015f410a41005a000000020002ffff1a000000029f5a0000000403777777ffff1900049fbf1b00000000000000001b00"
    "0000000000000118021b00000000000000011900041801ffff1bfffffffffffffffffae87ac7ec00bf1b0000000000000001001b0000000000000000"
    "9f19000a1b0000000000000005ffff1b000000000000000382b900040100021b00000000000000350700001800bf0218073a00000000780241531b7f"
    "ffffffffffffff7a00000000ffff";

// An exporter whose rotation to an invalid descriptor failed must not touch its old descriptor number afterwards: the
// number is free for re-use by any other output of the process (this thread's or another's).  Each round opens an output,
// lets a rotation fail, opens an independent second output (which normally receives the same number), drops the exporter
// and then checks the second output: still open, with exactly the bytes its owner wrote.
std::string stale_descriptor(CDNS::FilePreamble& fp, int id, Rng& rng, Rng& yrng, bool yields) {
    std::string out;
    int bad = 0;
    for (int round = 0; round < 6; round++) {
        int fd0 = memfd_create("thr-flaky", 0);
        int keep0 = dup(fd0);
        int fd1 = -1, keep1 = -1;
        std::string mark = "MARK" + std::to_string(id) + "." + std::to_string(round);
        {
            CDNS::CdnsExporter exp(fp, fd0, CDNS::CborOutputCompression::NO_COMPRESSION);
            CDNS::GenericQueryResponse g;
            g.ts = CDNS::Timestamp(1600000000 + id, rng.next() % 1000000);
            g.client_port = static_cast<uint16_t>(round);
            exp.buffer_qr(g);
            exp.write_block();
            bool threw = false;
            try { exp.rotate_output(-1, false); } catch (std::exception&) { threw = true; }
            out += threw ? "t" : "n";
            if (yields && (yrng.next() & 1) == 0) sched_yield();
            fd1 = memfd_create("thr-steady", 0);          // an independent output, opened while the exporter still exists
            keep1 = dup(fd1);
            if (write(fd1, mark.data(), mark.size()) != static_cast<ssize_t>(mark.size())) bad++;
            if (yields && (yrng.next() & 1) == 0) sched_yield();
        }
        if (write(fd1, "!", 1) != 1) bad++;              // still open for its owner
        std::string got = slurp(keep1);
        if (got != mark + "!") bad++;
        out += vh::digest(slurp(keep0)).substr(0, 4);
        close(fd1); close(keep1); close(keep0);
    }
    return "stale:" + std::string(bad ? "BAD" : "ok") + ":" + out;
}

std::string workload(CDNS::FilePreamble& shared_fp, int id, int nrec, uint64_t seed, bool yields) {
    Rng rng{seed * 1000003ULL + id * 7919ULL + 1};
    Rng yrng{seed * 31ULL + id + 5};       // scheduling noise only: never influences the data
    // every exporter is constructed from the SAME preamble object (the constructor copies it)
    CDNS::FilePreamble& fp = shared_fp;
    int comp = id % 3;
    int fd = memfd_create("thr", 0);
    int keep = dup(fd);
    std::string acc;
    {
        CDNS::CdnsExporter exp(fp, fd, comp == 0 ? CDNS::CborOutputCompression::NO_COMPRESSION
                                      : comp == 1 ? CDNS::CborOutputCompression::GZIP : CDNS::CborOutputCompression::XZ);
        // own parameter set, added and activated on this exporter only
        CDNS::BlockParameters bp;
        bp.storage_parameters.max_block_items = 1 + (id % 7);
        bp.storage_parameters.ticks_per_second = 1000000;
        CDNS::index_t bpi = exp.add_block_parameters(bp);
        exp.set_active_block_parameters(bpi);
        exp.write_block();
        acc += "bp" + std::to_string(bpi);
        for (int i = 0; i < nrec; i++) {
            CDNS::GenericQueryResponse g;
            g.ts = CDNS::Timestamp(1600000000 + id, rng.next() % 1000000);
            std::string ip(4, 0); for (auto& c : ip) c = static_cast<char>(rng.next());
            g.client_ip = ip;
            g.client_port = static_cast<uint16_t>(rng.next());
            std::string name = std::string("\3www\7example") + static_cast<char>(3) + "c" + static_cast<char>('a' + id % 26) + static_cast<char>('a' + i % 26) + std::string(1, '\0');
            g.query_name = name;
            g.query_classtype = CDNS::ClassType();
            g.query_classtype->type = 1 + (rng.next() % 40); g.query_classtype->class_ = 1;
            CDNS::GenericResourceRecord rr; rr.name = name; rr.classtype = *g.query_classtype; rr.ttl = 300; rr.rdata = ip;
            g.response_answers = std::vector<CDNS::GenericResourceRecord>{rr};
            exp.buffer_qr(g);
            acc += g.string();            // text renderers
            if (i % 5 == 0) {
                CDNS::GenericAddressEventCount a; a.ip_address = ip; a.ae_type = CDNS::AddressEventTypeValues::tcp_reset;
                exp.buffer_aec(a);
                acc += a.string();
            }
            if (i % 7 == 0) {
                CDNS::GenericMalformedMessage m; m.ts = *g.ts; m.client_ip = ip; m.mm_payload = name;
                exp.buffer_mm(m);
                acc += m.string();
            }
            if (yields && (yrng.next() & 3) == 0) sched_yield();
        }
        exp.write_block();
    }
    std::string file = slurp(keep);
    close(keep);
    std::string res = vh::digest(file) + "/" + vh::digest(acc);
    res += "/" + stale_descriptor(fp, id, rng, yrng, yields);
    {   // one block holding many address-event keys: the order in which such a block is written and read back must not depend
        // on the thread that does it (the keys live in a hash table)
        int fd2 = memfd_create("thr-aec", 0);
        int keep2 = dup(fd2);
        {
            CDNS::CdnsExporter exp2(fp, fd2, CDNS::CborOutputCompression::NO_COMPRESSION);
            CDNS::BlockParameters bp2;
            bp2.storage_parameters.max_block_items = 1000;
            CDNS::index_t k2 = exp2.add_block_parameters(bp2);
            exp2.set_active_block_parameters(k2);
            exp2.write_block();
            for (int j = 0; j < 48; j++) {
                CDNS::GenericAddressEventCount a;
                std::string ip(4, 0); ip[0] = 10; ip[1] = static_cast<char>(id); ip[2] = static_cast<char>(j); ip[3] = static_cast<char>(rng.next());
                a.ip_address = ip; a.ae_type = static_cast<CDNS::AddressEventTypeValues>(j % 6);
                exp2.buffer_aec(a);
                if (yields && (yrng.next() & 15) == 0) sched_yield();
            }
            exp2.write_block();
        }
        std::string f2 = slurp(keep2);
        close(keep2);
        std::istringstream is2(f2);
        std::string order;
        try {
            CDNS::CdnsReader reader(is2);
            bool eof = false;
            while (true) {
                CDNS::CdnsBlockRead b = reader.read_block(eof);
                if (eof) break;
                bool end = false;
                while (true) { auto a = b.read_generic_aec(end); if (end) break; order += vh::to_hex(a.ip_address) + ","; }
            }
        } catch (std::exception&) { order += "EXC"; }
        res += "/aec:" + vh::digest(f2) + ":" + vh::digest(order);
    }
    {   // NAMED outputs (the file-name writer: open '.part', stream buffer, flush/close/rename), one rotation, small pieces pending in the
        // stream when the other threads run; each thread has its own names
        const char* basedir = std::getenv("VERIF_TMP");
        std::string base = std::string(basedir ? basedir : "/tmp") + "/cdnsthr-" + std::to_string(getpid()) + "-" + (yields ? "p" : "s") + std::to_string(id);
        std::string sfx = comp == 0 ? "" : comp == 1 ? ".gz" : ".xz";
        std::string n0 = base + "_a", n1 = base + "_b";
        {
            CDNS::CdnsExporter exp3(fp, n0, comp == 0 ? CDNS::CborOutputCompression::NO_COMPRESSION
                                          : comp == 1 ? CDNS::CborOutputCompression::GZIP : CDNS::CborOutputCompression::XZ);
            for (int j = 0; j < 6; j++) {
                CDNS::GenericQueryResponse g;
                g.client_port = static_cast<uint16_t>(rng.next());
                g.transaction_id = static_cast<uint16_t>(id * 100 + j);
                exp3.buffer_qr(g);
                if (j % 2 == 1) exp3.write_block();          // small pieces reach the output stream one by one
                if (yields && (yrng.next() & 1) == 0) sched_yield();
                if (j == 3) exp3.rotate_output(n1, false);
            }
        }
        std::string d3;
        for (const std::string& n : {n0 + sfx, n1 + sfx}) {
            std::ifstream f(n, std::ifstream::binary);
            std::stringstream ss; ss << f.rdbuf();
            d3 += vh::digest(ss.str()) + ".";
            unlink(n.c_str());
        }
        res += "/nm:" + d3;
    }
    if (comp == 0) {        // read back (uncompressed outputs)
        std::istringstream is(file);
        CDNS::CdnsReader reader(is);
        bool eof = false;
        std::string dump;
        while (true) {
            CDNS::CdnsBlockRead b = reader.read_block(eof);
            if (eof) break;
            bool end = false;
            while (true) { auto q = b.read_generic_qr(end); if (end) break; dump += rec::show_qr(q) + q.string(); if (yields && (yrng.next() & 7) == 0) sched_yield(); }
            while (true) { auto a = b.read_generic_aec(end); if (end) break; dump += std::to_string(a.ae_count); }
            while (true) { auto m = b.read_generic_mm(end); if (end) break; dump += rec::show_mm(m); }
        }
        res += "/" + vh::digest(dump);
    }
    {   // a file with unknown members (skip_item)
        std::istringstream is(vh::from_hex(UNKNOWN_KEYS_FILE));
        std::string d;
        try {
            CDNS::CdnsReader reader(is);
            bool eof = false;
            while (true) {
                CDNS::CdnsBlockRead b = reader.read_block(eof);
                if (eof) break;
                bool end = false;
                while (true) { auto q = b.read_generic_qr(end); if (end) break; d += rec::show_qr(q); if (yields && (yrng.next() & 1) == 0) sched_yield(); }
            }
            d += "EOF";
        } catch (std::exception& e) { d += std::string("EXC"); }
        res += "/" + d;
    }
    return res;
}
}  // namespace

int vh::run_thr(int, char**) {
    std::string line;
    while (std::getline(std::cin, line)) {
        auto a = vh::split(line, ' ');
        if (a.size() < 4) { std::cout << "bad-op\n"; continue; }
        int n = std::atoi(a[1].c_str()), nrec = std::atoi(a[2].c_str());
        uint64_t seed = std::strtoull(a[3].c_str(), nullptr, 10);
        std::vector<std::string> seq(n), par(n);
        CDNS::FilePreamble shared_seq, shared_par;
        for (int i = 0; i < n; i++) seq[i] = workload(shared_seq, i, nrec, seed, false);
        std::vector<std::thread> ts;
        for (int i = 0; i < n; i++) ts.emplace_back([&, i]() { try { par[i] = workload(shared_par, i, nrec, seed, true); } catch (std::exception& e) { par[i] = std::string("EXC:") + e.what(); } });
        for (auto& t : ts) t.join();
        std::string out = "I seq=";
        for (int i = 0; i < n; i++) out += (i ? "," : "") + seq[i];
        out += " par=";
        for (int i = 0; i < n; i++) out += (i ? "," : "") + par[i];
        std::cout << out << std::endl;
    }
    return 0;
}
