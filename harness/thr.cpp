// Thread layer (C20): independent exporter / reader / renderer workloads on distinct outputs, run sequentially and then
// concurrently (with injected yields); per-thread results must be identical.  Built with -fsanitize=thread.
//   thr <threads> <records per thread> <seed>   ->  I seq=<digest,...> par=<digest,...>
#include "common.h"
#include "records.h"
#include <thread>
#include <atomic>
#include <sstream>
#include <sys/mman.h>
#include <unistd.h>
#include <sched.h>

namespace {
std::string slurp(int fd) {
    std::string out;
    off_t size = lseek(fd, 0, SEEK_END);
    if (size <= 0) return out;
    out.resize(size);
    off_t off = 0;
    while (off < size) { ssize_t r = pread(fd, &out[off], size - off, off); if (r <= 0) break; off += r; }
    return out;
}

struct Rng { uint64_t x; uint64_t next() { x ^= x << 13; x ^= x >> 7; x ^= x << 17; return x; } };

std::string workload(int id, int nrec, uint64_t seed, bool yields) {
    Rng rng{seed * 1000003ULL + id * 7919ULL + 1};
    Rng yrng{seed * 31ULL + id + 5};       // scheduling noise only: never influences the data
    CDNS::FilePreamble fp;
    fp.m_block_parameters[0].storage_parameters.max_block_items = 1 + (id % 7);
    int comp = id % 3;
    int fd = memfd_create("thr", 0);
    int keep = dup(fd);
    std::string acc;
    {
        CDNS::CdnsExporter exp(fp, fd, comp == 0 ? CDNS::CborOutputCompression::NO_COMPRESSION
                                      : comp == 1 ? CDNS::CborOutputCompression::GZIP : CDNS::CborOutputCompression::XZ);
        for (int i = 0; i < nrec; i++) {
            CDNS::GenericQueryResponse g;
            g.ts = CDNS::Timestamp(1600000000 + id, rng.next() % 1000000);
            std::string ip(4, 0); for (auto& c : ip) c = static_cast<char>(rng.next());
            g.client_ip = ip;
            g.client_port = static_cast<uint16_t>(rng.next());
            std::string name = std::string("\3www\7example") + static_cast<char>(3) + "c" + static_cast<char>('a' + id % 26) + static_cast<char>('a' + i % 26) + std::string(1, '\0');
            g.query_name = name;
            g.query_classtype = CDNS::ClassType();
            g.query_classtype->type = 1 + (rng.next() % 40); g.query_classtype->class_ = 1;
            CDNS::GenericResourceRecord rr; rr.name = name; rr.classtype = *g.query_classtype; rr.ttl = 300; rr.rdata = ip;
            g.response_answers = std::vector<CDNS::GenericResourceRecord>{rr};
            exp.buffer_qr(g);
            acc += g.string();            // text renderers
            if (i % 5 == 0) {
                CDNS::GenericAddressEventCount a; a.ip_address = ip; a.ae_type = CDNS::AddressEventTypeValues::tcp_reset;
                exp.buffer_aec(a);
                acc += a.string();
            }
            if (i % 7 == 0) {
                CDNS::GenericMalformedMessage m; m.ts = *g.ts; m.client_ip = ip; m.mm_payload = name;
                exp.buffer_mm(m);
                acc += m.string();
            }
            if (yields && (yrng.next() & 3) == 0) sched_yield();
        }
        exp.write_block();
    }
    std::string file = slurp(keep);
    close(keep);
    std::string res = vh::digest(file) + "/" + vh::digest(acc);
    if (comp == 0) {        // read back (uncompressed outputs)
        std::istringstream is(file);
        CDNS::CdnsReader reader(is);
        bool eof = false;
        std::string dump;
        while (true) {
            CDNS::CdnsBlockRead b = reader.read_block(eof);
            if (eof) break;
            bool end = false;
            while (true) { auto q = b.read_generic_qr(end); if (end) break; dump += rec::show_qr(q) + q.string(); if (yields && (yrng.next() & 7) == 0) sched_yield(); }
            while (true) { auto a = b.read_generic_aec(end); if (end) break; dump += std::to_string(a.ae_count); }
            while (true) { auto m = b.read_generic_mm(end); if (end) break; dump += rec::show_mm(m); }
        }
        res += "/" + vh::digest(dump);
    }
    return res;
}
}  // namespace

int vh::run_thr(int, char**) {
    std::string line;
    while (std::getline(std::cin, line)) {
        auto a = vh::split(line, ' ');
        if (a.size() < 4) { std::cout << "bad-op\n"; continue; }
        int n = std::atoi(a[1].c_str()), nrec = std::atoi(a[2].c_str());
        uint64_t seed = std::strtoull(a[3].c_str(), nullptr, 10);
        std::vector<std::string> seq(n), par(n);
        for (int i = 0; i < n; i++) seq[i] = workload(i, nrec, seed, false);
        std::vector<std::thread> ts;
        for (int i = 0; i < n; i++) ts.emplace_back([&, i]() { try { par[i] = workload(i, nrec, seed, true); } catch (std::exception& e) { par[i] = std::string("EXC:") + e.what(); } });
        for (auto& t : ts) t.join();
        std::string out = "I seq=";
        for (int i = 0; i < n; i++) out += (i ? "," : "") + seq[i];
        out += " par=";
        for (int i = 0; i < n; i++) out += (i ? "," : "") + par[i];
        std::cout << out << std::endl;
    }
    return 0;
}
