// Correspondence harness: `harness <layer>` reads request lines on stdin.
#include "common.h"
int main(int argc, char** argv) {
    // the thread layer keeps the standard streams synchronised: the library reports destructor failures on std::cerr, which
    // the standard makes safe for concurrent use only while synchronised with stdio
    if (!(argc >= 2 && std::string(argv[1]) == "thr")) std::ios::sync_with_stdio(false);
    if (argc < 2) { std::fprintf(stderr, "usage: harness <layer>\n"); return 2; }
    std::string layer = argv[1];
    if (layer == "enc") return vh::run_enc(argc - 2, argv + 2);
    if (layer == "ts") return vh::run_ts(argc - 2, argv + 2);
    if (layer == "dec") return vh::run_dec(argc - 2, argv + 2);
    if (layer == "exp") return vh::run_exp(argc - 2, argv + 2);
    if (layer == "rd") return vh::run_rd(argc - 2, argv + 2);
    if (layer == "tbl") return vh::run_tbl(argc - 2, argv + 2);
    if (layer == "os") return vh::run_os(argc - 2, argv + 2);
    if (layer == "wr") return vh::run_wr(argc - 2, argv + 2);
    if (layer == "thr") return vh::run_thr(argc - 2, argv + 2);
    if (layer == "fz") return vh::run_fz(argc - 2, argv + 2);
    std::fprintf(stderr, "unknown layer %s\n", layer.c_str());
    return 2;
}
