// Shared helpers of the correspondence harness (line protocol, hex, hashing).
#pragma once
#include <cstdint>
#include <cstdio>
#include <cstdlib>
#include <cstring>
#include <string>
#include <vector>
#include <iostream>
#include <sstream>
#include <functional>

namespace vh {

inline std::vector<std::string> split(const std::string& s, char sep) {
    std::vector<std::string> out;
    std::string cur;
    for (char c : s) {
        if (c == sep) { out.push_back(cur); cur.clear(); }
        else cur.push_back(c);
    }
    out.push_back(cur);
    return out;
}

inline std::string to_hex(const std::string& bs) {
    static const char* d = "0123456789abcdef";
    std::string o;
    o.reserve(bs.size() * 2);
    for (unsigned char c : bs) { o.push_back(d[c >> 4]); o.push_back(d[c & 15]); }
    return o;
}

inline int hexval(char c) {
    if (c >= '0' && c <= '9') return c - '0';
    if (c >= 'a' && c <= 'f') return c - 'a' + 10;
    if (c >= 'A' && c <= 'F') return c - 'A' + 10;
    return -1;
}

inline std::string from_hex(const std::string& h) {
    std::string o;
    if (h == "-") return o;
    for (size_t i = 0; i + 1 < h.size(); i += 2)
        o.push_back(static_cast<char>(hexval(h[i]) * 16 + hexval(h[i + 1])));
    return o;
}

inline uint64_t fnv64(const std::string& bs) {
    uint64_t h = 14695981039346656037ULL;
    for (unsigned char c : bs) { h ^= c; h *= 1099511628211ULL; }
    return h;
}

inline std::string digest(const std::string& bs) {
    char buf[64];
    std::snprintf(buf, sizeof buf, "%zu:%016llx", bs.size(), (unsigned long long)fnv64(bs));
    return buf;
}

inline std::string pattern(uint64_t n, uint64_t k) {
    std::string o;
    o.resize(n);
    for (uint64_t i = 0; i < n; i++) o[i] = static_cast<char>((i * 7 + k) % 256);
    return o;
}

// called by the session runner before each API call of an exporter session (token text); set by the os layer
extern void (*g_api_hook)(const char* token);

// layer entry points: each reads request lines from stdin and prints result lines
int run_enc(int argc, char** argv);
int run_ts(int argc, char** argv);
int run_dec(int argc, char** argv);
int run_exp(int argc, char** argv);
int run_rd(int argc, char** argv);
int run_tbl(int argc, char** argv);
int run_os(int argc, char** argv);
int run_wr(int argc, char** argv);
int run_thr(int argc, char** argv);
int run_fz(int argc, char** argv);
std::string exp_session(const std::string& line, int line_no, const std::string& fixed_dir, bool keep_files);

}  // namespace vh
