// Table layer (C11, C19): the nine block tables of real CdnsBlockRead objects, and copy/move/assign/destroy of blocks.
//   tbl <op> <op> ...
//     new:<b>                      create an empty block b
//     a<T>:<b>:<value>             add to table T of block b -> index        T in ip nr ct qs ql qq rl rr md
//     g<T>:<b>:<index>             get -> value | E
//     s<T>:<b>                     size of table T
//     clr:<b>                      clear()
//     cp:<dst>:<src>:<cc|mc|ca|ma> copy ctor / move ctor / copy assignment / move assignment
//     del:<b>                      destroy block b
//     w:<b>                        digest of the block's serialisation (after adding one QR referring to nothing)
//   answer: I r1 r2 ...
#include "common.h"
#include <algorithm>
#include "records.h"
#include <map>
#include <memory>
#include <fcntl.h>
#include <unistd.h>

namespace {
struct CaptureWriter : public CDNS::BaseCborOutputWriter {
    explicit CaptureWriter(std::string* sink) : sink_(sink) {}
    void write(const char* p, std::size_t size) override { sink_->append(p, size); }
    void rotate_output(const boost::any&) override {}
    std::string* sink_;
};

template <typename T> boost::optional<T> optnum(const std::string& s) {
    if (s == "-") return boost::none;
    return static_cast<T>(rec::U(s));
}
template <typename T> std::string shownum(const boost::optional<T>& o) { return o ? std::to_string(static_cast<uint64_t>(*o)) : std::string("-"); }

std::vector<CDNS::index_t> parse_list(const std::string& s) {
    std::vector<CDNS::index_t> v;
    if (s.empty() || s == "e") return v;
    for (auto& e : vh::split(s, '.')) v.push_back(static_cast<CDNS::index_t>(rec::U(e)));
    return v;
}
std::string show_list(const std::vector<CDNS::index_t>& v) {
    if (v.empty()) return "e";
    std::string o;
    for (std::size_t i = 0; i < v.size(); i++) { if (i) o += "."; o += std::to_string(v[i]); }
    return o;
}

CDNS::QueryResponseSignature parse_qs(const std::string& s) {
    auto p = vh::split(s, '.');
    CDNS::QueryResponseSignature q;
    q.server_address_index = optnum<CDNS::index_t>(p[0]); q.server_port = optnum<uint16_t>(p[1]);
    q.qr_transport_flags = optnum<CDNS::QueryResponseTransportFlagsMask>(p[2]); q.qr_type = optnum<CDNS::QueryResponseTypeValues>(p[3]);
    q.qr_sig_flags = optnum<CDNS::QueryResponseFlagsMask>(p[4]); q.query_opcode = optnum<uint8_t>(p[5]);
    q.qr_dns_flags = optnum<CDNS::DNSFlagsMask>(p[6]); q.query_rcode = optnum<uint16_t>(p[7]);
    q.query_classtype_index = optnum<CDNS::index_t>(p[8]); q.query_qdcount = optnum<uint16_t>(p[9]);
    q.query_ancount = optnum<uint16_t>(p[10]); q.query_nscount = optnum<uint16_t>(p[11]); q.query_arcount = optnum<uint16_t>(p[12]);
    q.query_edns_version = optnum<uint8_t>(p[13]); q.query_udp_size = optnum<uint16_t>(p[14]);
    q.query_opt_rdata_index = optnum<CDNS::index_t>(p[15]); q.response_rcode = optnum<uint16_t>(p[16]);
    return q;
}
std::string show_qs(const CDNS::QueryResponseSignature& q) {
    return shownum(q.server_address_index) + "." + shownum(q.server_port) + "." + shownum(q.qr_transport_flags) + "." + shownum(q.qr_type) + "." +
           shownum(q.qr_sig_flags) + "." + shownum(q.query_opcode) + "." + shownum(q.qr_dns_flags) + "." + shownum(q.query_rcode) + "." +
           shownum(q.query_classtype_index) + "." + shownum(q.query_qdcount) + "." + shownum(q.query_ancount) + "." + shownum(q.query_nscount) + "." +
           shownum(q.query_arcount) + "." + shownum(q.query_edns_version) + "." + shownum(q.query_udp_size) + "." +
           shownum(q.query_opt_rdata_index) + "." + shownum(q.response_rcode);
}

typedef std::map<int, std::unique_ptr<CDNS::CdnsBlockRead>> Blocks;

std::string one(Blocks& B, const std::string& tok) {
    auto a = vh::split(tok, ':');
    const std::string& op = a[0];
    auto blk = [&](const std::string& s) -> CDNS::CdnsBlockRead& {
        auto it = B.find(std::atoi(s.c_str()));
        if (it == B.end() || !it->second) throw std::runtime_error("no such block");
        return *it->second;
    };
    if (op == "new") { B[std::atoi(a[1].c_str())] = std::make_unique<CDNS::CdnsBlockRead>(); return "ok"; }
    if (op == "del") { B.erase(std::atoi(a[1].c_str())); return "ok"; }
    if (op == "clr") { blk(a[1]).clear(); return "ok"; }
    if (op == "cp") {
        int dst = std::atoi(a[1].c_str());
        CDNS::CdnsBlockRead& src = blk(a[2]);
        if (a[3] == "cc") B[dst] = std::make_unique<CDNS::CdnsBlockRead>(src);
        else if (a[3] == "mc") B[dst] = std::make_unique<CDNS::CdnsBlockRead>(std::move(src));
        else if (a[3] == "ca") { if (!B[dst]) B[dst] = std::make_unique<CDNS::CdnsBlockRead>(); *B[dst] = src; }
        else if (a[3] == "ma") { if (!B[dst]) B[dst] = std::make_unique<CDNS::CdnsBlockRead>(); *B[dst] = std::move(src); }
        return "ok";
    }
    if (op == "w") {
        CDNS::CdnsBlockRead& b = blk(a[1]);
        std::string sink;
        {
            int fd = open("/dev/null", O_WRONLY);
            CDNS::CdnsEncoder enc(fd, CDNS::CborOutputCompression::NO_COMPRESSION);
            enc.m_cos = std::make_unique<CaptureWriter>(&sink);
            b.write(enc);
        }
        return vh::digest(sink);
    }
    // items and the read cursors of CdnsBlockRead
    if (op == "iq") { CDNS::QueryResponse q; q.client_port = static_cast<uint16_t>(rec::U(a[2])); blk(a[1]).add_question_response_record(q, boost::none); return "ok"; }
    if (op == "im") { CDNS::MalformedMessage m; m.client_port = static_cast<uint16_t>(rec::U(a[2])); blk(a[1]).add_malformed_message(m, boost::none); return "ok"; }
    if (op == "ia") {
        CDNS::CdnsBlockRead& b = blk(a[1]);
        CDNS::AddressEventCount ae;
        ae.ae_type = static_cast<CDNS::AddressEventTypeValues>(rec::U(a[2]));
        ae.ae_address_index = b.add_ip_address(std::string("\x7f\x00\x00\x01", 4));
        b.add_address_event_count(ae, boost::none);
        return "ok";
    }
    if (op == "st") { CDNS::BlockStatistics st; st.processed_messages = static_cast<uint32_t>(rec::U(a[2])); blk(a[1]).m_block_statistics = st; return "ok"; }
    if (op == "gs") { auto& st = blk(a[1]).m_block_statistics; return st ? shownum(st->processed_messages) : std::string("none"); }
    if (op == "rq") { bool end = false; auto g = blk(a[1]).read_generic_qr(end); return end ? "end" : shownum(g.client_port); }
    if (op == "rm") { bool end = false; auto g = blk(a[1]).read_generic_mm(end); return end ? "end" : shownum(g.client_port); }
    if (op == "RA") {
        CDNS::CdnsBlockRead& b = blk(a[1]);
        std::vector<std::string> got;
        while (true) { bool end = false; auto g = b.read_generic_aec(end); if (end) break; got.push_back(std::to_string(static_cast<unsigned>(g.ae_type)) + "*" + std::to_string(g.ae_count)); }
        std::sort(got.begin(), got.end());
        std::string r;
        for (auto& x : got) r += (r.empty() ? "" : ",") + x;
        return r.empty() ? "-" : r;
    }
    char k = op[0];
    std::string T = op.substr(1);
    CDNS::CdnsBlockRead& b = blk(a[1]);
    if (k == 'a') {
        CDNS::index_t r = 0;
        if (T == "ip") r = b.add_ip_address(rec::X(a[2]));
        else if (T == "nr") r = b.add_name_rdata(rec::X(a[2]));
        else if (T == "ct") { auto p = vh::split(a[2], '.'); CDNS::ClassType c; c.type = rec::U(p[0]); c.class_ = rec::U(p[1]); r = b.add_classtype(c); }
        else if (T == "qq") { auto p = vh::split(a[2], '.'); CDNS::Question q; q.name_index = rec::U(p[0]); q.classtype_index = rec::U(p[1]); r = b.add_question(q); }
        else if (T == "ql") r = b.add_question_list(parse_list(a[2]));
        else if (T == "rl") r = b.add_rr_list(parse_list(a[2]));
        else if (T == "rr") { auto p = vh::split(a[2], '.'); CDNS::RR x; x.name_index = rec::U(p[0]); x.classtype_index = rec::U(p[1]);
                              x.ttl = optnum<uint32_t>(p[2]); x.rdata_index = optnum<CDNS::index_t>(p[3]); r = b.add_rr(x); }
        else if (T == "qs") r = b.add_qr_signature(parse_qs(a[2]));
        else if (T == "md") { auto p = vh::split(a[2], '.'); CDNS::MalformedMessageData m; m.server_address_index = optnum<CDNS::index_t>(p[0]);
                              m.server_port = optnum<uint16_t>(p[1]); m.mm_transport_flags = optnum<CDNS::QueryResponseTransportFlagsMask>(p[2]);
                              if (p[3] != "-") m.mm_payload = rec::X(p[3]); r = b.add_malformed_message_data(m); }
        else return "bad-op";
        return std::to_string(r);
    }
    if (k == 'r' && T == "md") {
        // the application re-uses ONE MalformedMessageData object for every call, assigning its public members
        static thread_local CDNS::MalformedMessageData reused;
        auto p = vh::split(a[2], '.');
        reused.server_address_index = optnum<CDNS::index_t>(p[0]);
        reused.server_port = optnum<uint16_t>(p[1]);
        reused.mm_transport_flags = optnum<CDNS::QueryResponseTransportFlagsMask>(p[2]);
        if (p[3] != "-") reused.mm_payload = rec::X(p[3]); else reused.mm_payload = boost::none;
        return std::to_string(b.add_malformed_message_data(reused));
    }
    if (k == 'v') {
        // BlockTable::add_value – what the reader does for every table entry of a file (equal values are kept apart)
        CDNS::index_t r = 0;
        if (T == "ip") { CDNS::StringItem x; x.data = rec::X(a[2]); r = b.m_ip_address.add_value(std::move(x)); }
        else if (T == "nr") { CDNS::StringItem x; x.data = rec::X(a[2]); r = b.m_name_rdata.add_value(std::move(x)); }
        else if (T == "ct") { auto p = vh::split(a[2], '.'); CDNS::ClassType c; c.type = rec::U(p[0]); c.class_ = rec::U(p[1]); r = b.m_classtype.add_value(std::move(c)); }
        else if (T == "qq") { auto p = vh::split(a[2], '.'); CDNS::Question q; q.name_index = rec::U(p[0]); q.classtype_index = rec::U(p[1]); r = b.m_qrr.add_value(std::move(q)); }
        else if (T == "ql") { CDNS::IndexListItem x; x.list = parse_list(a[2]); r = b.m_qlist.add_value(std::move(x)); }
        else if (T == "rl") { CDNS::IndexListItem x; x.list = parse_list(a[2]); r = b.m_rrlist.add_value(std::move(x)); }
        else if (T == "rr") { auto p = vh::split(a[2], '.'); CDNS::RR x; x.name_index = rec::U(p[0]); x.classtype_index = rec::U(p[1]);
                              x.ttl = optnum<uint32_t>(p[2]); x.rdata_index = optnum<CDNS::index_t>(p[3]); r = b.m_rr.add_value(std::move(x)); }
        else if (T == "qs") { auto x = parse_qs(a[2]); r = b.m_qr_sig.add_value(std::move(x)); }
        else if (T == "md") { auto p = vh::split(a[2], '.'); CDNS::MalformedMessageData m; m.server_address_index = optnum<CDNS::index_t>(p[0]);
                              m.server_port = optnum<uint16_t>(p[1]); m.mm_transport_flags = optnum<CDNS::QueryResponseTransportFlagsMask>(p[2]);
                              if (p[3] != "-") m.mm_payload = rec::X(p[3]); r = b.m_malformed_message_data.add_value(std::move(m)); }
        else return "bad-op";
        return std::to_string(r);
    }
    if (k == 'g') {
        CDNS::index_t i = static_cast<CDNS::index_t>(rec::U(a[2]));
        try {
            if (T == "ip") return rec::toX(b.get_ip_address(i));
            if (T == "nr") return rec::toX(b.get_name_rdata(i));
            if (T == "ct") { auto c = b.get_classtype(i); return std::to_string(c.type) + "." + std::to_string(c.class_); }
            if (T == "qq") { auto q = b.get_question(i); return std::to_string(q.name_index) + "." + std::to_string(q.classtype_index); }
            if (T == "ql") return show_list(b.get_question_list(i));
            if (T == "rl") return show_list(b.get_rr_list(i));
            if (T == "rr") { auto x = b.get_rr(i); return std::to_string(x.name_index) + "." + std::to_string(x.classtype_index) + "." + shownum(x.ttl) + "." + shownum(x.rdata_index); }
            if (T == "qs") return show_qs(b.get_qr_signature(i));
            if (T == "md") { auto m = b.get_malformed_message_data(i); return shownum(m.server_address_index) + "." + shownum(m.server_port) + "." + shownum(m.mm_transport_flags) + "." + (m.mm_payload ? rec::toX(*m.mm_payload) : std::string("-")); }
        } catch (std::exception&) { return "E"; }
        return "bad-op";
    }
    if (k == 's') {
        if (T == "ip") return std::to_string(b.m_ip_address.size());
        if (T == "nr") return std::to_string(b.m_name_rdata.size());
        if (T == "ct") return std::to_string(b.m_classtype.size());
        if (T == "qq") return std::to_string(b.m_qrr.size());
        if (T == "ql") return std::to_string(b.m_qlist.size());
        if (T == "rl") return std::to_string(b.m_rrlist.size());
        if (T == "rr") return std::to_string(b.m_rr.size());
        if (T == "qs") return std::to_string(b.m_qr_sig.size());
        if (T == "md") return std::to_string(b.m_malformed_message_data.size());
    }
    return "bad-op";
}
}  // namespace

int vh::run_tbl(int, char**) {
    std::string line;
    while (std::getline(std::cin, line)) {
        Blocks B;
        std::string out = "I";
        auto toks = vh::split(line, ' ');
        for (std::size_t i = 1; i < toks.size(); i++) {
            if (toks[i].empty()) continue;
            std::string r;
            try { r = one(B, toks[i]); } catch (std::exception&) { r = "E"; }
            out += " " + r;
        }
        std::cout << out << "\n";
    }
    return 0;
}
