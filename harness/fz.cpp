// Untrusted-input layer (C03): the complete read side on arbitrary bytes, in-process, under ASan/UBSan.
//   fz <hex>   ->  I <status>   status: ok:<blocks>:<records> | exc:end | exc:dec | exc:other
// Sanitizer reports, signals and the per-input alarm kill the process: the runner records the input as crashing.
#include "common.h"
#include "records.h"
#include <sstream>
#include <unistd.h>
#include <signal.h>

namespace {
volatile std::size_t g_sink = 0;
void use(const std::string& s) { g_sink += s.size(); }

std::string run_one(const std::string& data) {
    std::istringstream is(data);
    std::size_t blocks = 0, records = 0;
    try {
        CDNS::CdnsReader reader(is);
        use(reader.m_file_preamble.string());
        use(rec::show_preamble(reader.m_file_preamble));
        bool eof = false;
        while (true) {
            CDNS::CdnsBlockRead b = reader.read_block(eof);
            if (eof) break;
            blocks++;
            use(b.string());
            // copies of blocks must be safe too
            CDNS::CdnsBlockRead c(b);
            bool end = false;
            while (true) { auto q = c.read_generic_qr(end); if (end) break; records++; use(q.string()); use(rec::show_qr(q)); }
            while (true) { auto a = c.read_generic_aec(end); if (end) break; records++; use(a.string()); }
            while (true) { auto m = c.read_generic_mm(end); if (end) break; records++; use(m.string()); }
            // item-level renderers
            for (auto& q : b.m_query_responses) use(q.string());
            for (auto& m : b.m_malformed_messages) use(m.string());
            if (b.m_block_statistics) use(b.m_block_statistics->string());
            use(b.m_block_preamble.string());
        }
    } catch (CDNS::CdnsDecoderEnd&) { return "exc:end:" + std::to_string(blocks); }
    catch (CDNS::CdnsDecoderException&) { return "exc:dec:" + std::to_string(blocks); }
    catch (std::exception&) { return "exc:other:" + std::to_string(blocks); }
    return "ok:" + std::to_string(blocks) + ":" + std::to_string(records);
}
}  // namespace

int vh::run_fz(int, char**) {
    std::string line;
    while (std::getline(std::cin, line)) {
        auto a = vh::split(line, ' ');
        if (a.size() < 2) { std::cout << "bad-op\n"; continue; }
        alarm(20);
        std::string r = run_one(vh::from_hex(a[1]));
        alarm(0);
        std::cout << "I " << r << std::endl;
    }
    return 0;
}
