// Untrusted-input layer (C03): the complete read side on arbitrary bytes, in-process, under ASan/UBSan.
//   fz <hex>   ->  I <status> A<largest single allocation request in bytes> T<microseconds>   status: ok:<blocks>:<records> | exc:end | exc:dec | exc:other
// Sanitizer reports, signals and the per-input alarm kill the process: the runner records the input as crashing.
#include "common.h"
#include "records.h"
#include <sstream>
#include <unistd.h>
#include <signal.h>
#include <chrono>

#if defined(__SANITIZE_ADDRESS__)
// AddressSanitizer calls this after every successful allocation: the largest single request made while one input is processed
static volatile std::size_t g_max_alloc = 0;
extern "C" void __sanitizer_malloc_hook(const volatile void*, std::size_t size) { if (size > g_max_alloc) g_max_alloc = size; }
#else
static volatile std::size_t g_max_alloc = 0;
#endif

namespace {
volatile std::size_t g_sink = 0;
void use(const std::string& s) { g_sink += s.size(); }

std::string run_one(const std::string& data) {
    std::istringstream is(data);
    std::size_t blocks = 0, records = 0;
    try {
        CDNS::CdnsReader reader(is);
        use(reader.m_file_preamble.string());
        use(rec::show_preamble(reader.m_file_preamble));
        bool eof = false;
        while (true) {
            CDNS::CdnsBlockRead b = reader.read_block(eof);
            if (eof) break;
            blocks++;
            use(b.string());
            // copies of blocks must be safe too
            CDNS::CdnsBlockRead c(b);
            bool end = false;
            while (true) { auto q = c.read_generic_qr(end); if (end) break; records++; use(q.string()); use(rec::show_qr(q)); }
            while (true) { auto a = c.read_generic_aec(end); if (end) break; records++; use(a.string()); }
            while (true) { auto m = c.read_generic_mm(end); if (end) break; records++; use(m.string()); }
            // item-level renderers
            for (auto& q : b.m_query_responses) use(q.string());
            for (auto& m : b.m_malformed_messages) use(m.string());
            for (auto& a : b.m_address_event_counts) { CDNS::AddressEventCount k(a.first); use(k.string()); }
            // every table entry through its accessor and its renderer
            for (CDNS::index_t i = 0; i < b.m_ip_address.size(); i++) use(b.get_ip_address(i));
            for (CDNS::index_t i = 0; i < b.m_name_rdata.size(); i++) use(b.get_name_rdata(i));
            for (CDNS::index_t i = 0; i < b.m_classtype.size(); i++) use(b.get_classtype(i).string());
            for (CDNS::index_t i = 0; i < b.m_qr_sig.size(); i++) use(b.get_qr_signature(i).string());
            for (CDNS::index_t i = 0; i < b.m_qlist.size(); i++) g_sink += b.get_question_list(i).size();
            for (CDNS::index_t i = 0; i < b.m_qrr.size(); i++) use(b.get_question(i).string());
            for (CDNS::index_t i = 0; i < b.m_rrlist.size(); i++) g_sink += b.get_rr_list(i).size();
            for (CDNS::index_t i = 0; i < b.m_rr.size(); i++) use(b.get_rr(i).string());
            for (CDNS::index_t i = 0; i < b.m_malformed_message_data.size(); i++) use(b.get_malformed_message_data(i).string());
            use(b.m_block_preamble.earliest_time.string());
            if (b.m_block_statistics) use(b.m_block_statistics->string());
            use(b.m_block_preamble.string());
        }
    } catch (CDNS::CdnsDecoderEnd&) { return "exc:end:" + std::to_string(blocks); }
    catch (CDNS::CdnsDecoderException&) { return "exc:dec:" + std::to_string(blocks); }
    catch (std::exception&) { return "exc:other:" + std::to_string(blocks); }
    return "ok:" + std::to_string(blocks) + ":" + std::to_string(records);
}
}  // namespace

int vh::run_fz(int, char**) {
    std::string line;
    while (std::getline(std::cin, line)) {
        auto a = vh::split(line, ' ');
        if (a.size() < 2) { std::cout << "bad-op\n"; continue; }
        std::string input = vh::from_hex(a[1]);
        alarm(20);
        g_max_alloc = 0;
        auto t0 = std::chrono::steady_clock::now();
        std::string r = run_one(input);
        auto us = std::chrono::duration_cast<std::chrono::microseconds>(std::chrono::steady_clock::now() - t0).count();
        std::size_t largest = g_max_alloc;
        alarm(0);
        std::cout << "I " << r << " A" << largest << " T" << us << std::endl;
    }
    return 0;
}
