#!/usr/bin/env python3
"""confirm an independently produced property-breaking change and run the checks against it.
usage: seedtest.py <prop> <mutX> [extra props to run...]
  1. in the scratch worktree /tmp/seed/<prop>: apply OUT/<mutX>.diff, build, run the unit tests (must pass), build+run the
     demonstration (must fail); undo; rebuild the demonstration on the clean tree (must pass)
  2. apply the change to /repo, run the quick check of <prop> (and of the extra props), undo (git checkout -- .)
  3. store patch.diff, demo, meta.json under /verif/seeded/<prop>-<mutX>/"""
import json, os, shutil, subprocess, sys, time, glob

prop, mut = sys.argv[1], sys.argv[2]
extra = sys.argv[3:]
WT = os.environ.get("SEED_WT") or os.path.join(os.environ.get("SEED_ROOT", "/tmp/seed"), prop)
OUT = os.path.join(WT, "OUT")
VERIF = os.path.dirname(os.path.dirname(os.path.abspath(__file__)))
REPO = os.environ.get("SEED_REPO", "/repo")          # a worktree of /repo at the same HEAD may be used, so that /repo itself stays untouched
RUNVERIF = os.environ.get("SEED_VERIF", VERIF)      # copy of /verif the checks are run from (so that work in /verif/lean does not interfere)
SAFE = mut.startswith("safe")                       # behaviour-preserving rewrite: no demonstration, the checks must stay quiet
ALL = ["C%02d" % i for i in range(1, 21)]
if extra == ["ALL"]:
    extra = [p for p in ALL if p != prop]


def sh(cmd, cwd=None, timeout=1800):
    p = subprocess.run(cmd, shell=True, cwd=cwd, stdout=subprocess.PIPE, stderr=subprocess.STDOUT, text=True, errors="replace", timeout=timeout)
    return p.returncode, p.stdout


def build_and_test():
    rc, out = sh("cmake --build _build 2>&1 | tail -3 && _build/tests/tests 2>&1 | tail -2", cwd=WT)
    return "PASSED  ] 98 tests" in out, out[-400:]


def run_demo(tag):
    demos = [f for f in sorted(glob.glob(os.path.join(OUT, mut + "_demo.*"))) if f.endswith((".cpp", ".sh"))]     # (a demo may leave data files of that name)
    if not demos:
        return None, "no demo"
    d = demos[0]
    if d.endswith(".cpp"):
        exe = os.path.join(OUT, "%s_demo_%s.bin" % (mut, tag))
        rc, out = sh("g++ -std=gnu++14 -msse4 -O1 -I%s/src %s %s/src/*.cpp -lz -llzma -lpthread -o %s" % (WT, d, WT, exe))
        if rc != 0:
            return None, "demo does not compile: " + out[-600:]
        rc, out = sh("cd %s && timeout 600 %s" % (OUT, exe))
        os.remove(exe)
        return rc, out[-600:]
    rc, out = sh("cd %s && timeout 900 bash %s" % (WT, d))
    return rc, out[-600:]


meta = {"property": prop, "mutation": mut, "when": time.strftime("%Y-%m-%d %H:%M:%S")}
patch = os.path.join(OUT, mut + ".diff")
sh("git checkout -- src tests", cwd=WT)
rc, out = sh("git apply --check %s" % patch, cwd=WT)
if rc != 0:
    print("patch does not apply:", out); sys.exit(2)
sh("git apply %s" % patch, cwd=WT)
ok, tail = build_and_test()
meta["tests_pass_with_change"] = ok
rc_mut, out_mut = (1, "safe change: no demonstration") if SAFE else run_demo("mut")
meta["demo_with_change"] = {"exit": rc_mut, "tail": out_mut}
sh("git checkout -- src tests", cwd=WT)
sh("cmake --build _build 2>&1 | tail -1", cwd=WT)        # demonstrations of tool-level changes use the binaries in _build
rc_clean, out_clean = (0, "") if SAFE else run_demo("clean")
meta["demo_without_change"] = {"exit": rc_clean, "tail": out_clean}
confirmed = ok and rc_mut not in (0, None) and rc_clean == 0
meta["confirmed"] = confirmed
print("confirmed=%s tests=%s demo_with=%s demo_without=%s" % (confirmed, ok, rc_mut, rc_clean))
if not confirmed:
    print(json.dumps(meta, indent=1)[:2000])
    sys.exit(3)
# 2. run the checks against /repo with the change
rc, out = sh("git -C %s status --porcelain --untracked-files=no" % REPO)
if out.strip():
    print("/repo is not clean:", out); sys.exit(4)
rc, out = sh("git -C %s apply %s" % (REPO, patch))
if rc != 0:
    print("cannot apply to /repo:", out); sys.exit(5)
results = {}
try:
    for p in [prop] + extra:
        t0 = time.time()
        rc, out = sh(("CDNS_REPO=%s " % REPO if REPO != "/repo" else "") + "python3 tools/check.py %s --tier quick" % p, cwd=RUNVERIF, timeout=3600)
        viol = [l for l in out.splitlines() if l.startswith("VIOLATION")]
        results[p] = {"exit": rc, "violation_line": viol[0] if viol else None, "summary": out.strip().splitlines()[-1][:300] if out.strip() else "",
                      "wall_s": round(time.time() - t0, 1)}
        if viol:
            rp = viol[0].split("replay=")[1].split()[0]
            try:
                d = json.load(open(rp))
                results[p]["signatures"] = [f["signature"] for f in d.get("failures", [])][:8]
                results[p]["broken_obligations"] = [b["name"] if isinstance(b, dict) else b[0] for b in d.get("broken_obligations", [])][:6]
                if not SAFE:
                    os.remove(rp)
                else:
                    results[p]["replay"] = rp
            except Exception:
                pass
        print(p, results[p])
finally:
    sh("git -C %s checkout -- ." % REPO)
meta["checks"] = results
meta["caught_by"] = [p for p, r in results.items() if r["exit"] != 0 or r["violation_line"]]
meta["kind"] = "behaviour-preserving rewrite (checks must stay quiet)" if SAFE else "property-breaking change"
dst = os.path.join(os.environ.get("SEED_STORE", os.path.join(VERIF, "seeded")), os.environ.get("SEED_NAME") or "%s-%s" % (prop, mut))
os.makedirs(dst, exist_ok=True)
shutil.copy(patch, os.path.join(dst, "patch.diff"))
for f in glob.glob(os.path.join(OUT, mut + "_demo.*")):
    if not f.endswith(".bin"):
        shutil.copy(f, dst)
md = os.path.join(OUT, mut + ".md")
meta["needs"] = open(md).read()[:3000] if os.path.exists(md) else ""
meta["what_was_run"] = ("scratch worktree: git apply; cmake --build; _build/tests/tests (98 pass); demo built against the changed and the clean "
                        "tree; then git -C /repo apply; python3 tools/check.py <prop> --tier quick; git -C /repo checkout -- .")
json.dump(meta, open(os.path.join(dst, "meta.json"), "w"), indent=1)
print("ALARMS (false):" if SAFE else "caught_by:", meta["caught_by"])
