#!/bin/bash
# development aid: run every quick check on the clean tree at several seeds; the LAST pass (seed 0) leaves the evidence files.
# usage: tools/evidence_all.sh [seeds...]   (default: 1 2 3 0)
cd "$(dirname "$0")/.."
git -C ${CDNS_REPO:-/repo} status --porcelain --untracked-files=no | grep -q . && { echo "/repo is not clean"; exit 2; }
seeds=${@:-1 2 3 0}
rc=0
for s in $seeds; do
  for i in $(seq -w 1 20); do
    out=$(VERIF_SEED=$s python3 tools/check.py C$i --tier quick 2>&1); e=$?
    echo "$out" | tail -1 | cut -c1-200
    if [ $e -ne 0 ] || echo "$out" | grep -q "^VIOLATION"; then echo "  ^^^ ALARM on the clean tree (seed $s)"; echo "$out" | grep "^VIOLATION"; rc=1; fi
  done
done
exit $rc
