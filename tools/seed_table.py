#!/usr/bin/env python3
"""prints the markdown table of DESIGN.md §9 from seeded/*/meta.json (+ seeded/descriptions.json)"""
import glob, json, os
V = os.path.dirname(os.path.dirname(os.path.abspath(__file__)))
desc = json.load(open(os.path.join(V, "seeded", "descriptions.json")))
print("| id | change (file) | what it needs to show | caught by (signatures of the quick check) |")
print("|---|---|---|---|")
for d in sorted(glob.glob(os.path.join(V, "seeded", "C*-mut*"))):
    k = os.path.basename(d)
    m = json.load(open(os.path.join(d, "meta.json")))
    cb = []
    for p, r in m["checks"].items():
        if r.get("exit") == 1:
            sig = (r.get("signatures") or [])[:3]
            ob = [o.split(".")[-1] for o in (r.get("broken_obligations") or [])][:2]
            cb.append("%s: %s%s" % (p, ", ".join("`%s`" % s for s in sig), (" + broken " + ", ".join("`%s`" % o for o in ob)) if ob else ""))
    dd = desc.get(k, ["", ""])
    print("| %s | %s | %s | %s |" % (k, dd[0], dd[1], "; ".join(cb)))
