"""Reference semantics of the exporter at the level the properties speak about (an append-only log of
storable records per output, blocks flushed at the configured size), written from the documented API
behaviour; used as the executable specification for C01, C02, C04, C10, C12, C13."""
import cdnsgen as G


class RefExporter:
    def __init__(self, fp, bps):
        self.fp = dict(fp)
        self.bps = [dict(b) for b in bps]
        self.pre_bps = len(bps)          # parameter sets written into the current output's preamble
        self.active = 0
        self.cur_pi = 0
        self.blocks_written = 0
        self.outputs = [[]]              # per output: list of blocks
        self.out_preamble = [None]       # number of bps in that output's preamble once written
        self.out_preamble_bps = [None]   # their contents at that moment (parameters can be edited in place later)
        self.block_bp = dict(self.bps[0])    # the copy of its parameters the block being filled holds
        self.clear()

    def clear(self):
        self.qrs, self.aecs, self.mms, self.stats = [], {}, [], None
        self.qr_ids, self.mm_ids, self.stats_id = [], [], None

    def params(self):
        d = {"max": 10000, "qrh": G.ALL_QRH, "sigh": G.ALL_SIGH, "rrh": 3, "odh": 3, "tps": 1000000}
        d.update(self.block_bp)
        return d

    def counts(self):
        return (len(self.qrs) + len(self.aecs) + len(self.mms), len(self.qrs), len(self.aecs), len(self.mms), self.blocks_written)

    def full(self):
        m = self.params()["max"]
        return len(self.qrs) >= m or len(self.aecs) >= m or len(self.mms) >= m

    def write_block(self):
        wrote = False
        if len(self.qrs) + len(self.aecs) + len(self.mms) > 0:
            if self.blocks_written == 0:
                self.out_preamble[-1] = len(self.bps)
                self.out_preamble_bps[-1] = [dict(b) for b in self.bps]
            self.outputs[-1].append({"pi": self.cur_pi, "st": self.stats, "qrs": list(self.qrs), "aecs": dict(self.aecs),
                                     "mms": list(self.mms), "qr_ids": list(self.qr_ids), "mm_ids": list(self.mm_ids),
                                     "st_id": self.stats_id})
            self.blocks_written += 1
            wrote = True
        self.clear()
        self.cur_pi = self.active
        self.block_bp = dict(self.bps[self.active])
        return wrote

    def q(self, r, st, rid=None):
        p = self.params()
        pr = G.project_qr(r, p["qrh"], p["sigh"], p["rrh"])
        self.last_stored = bool(pr)
        if pr:
            self.qrs.append(pr); self.qr_ids.append(rid)
        if st is not None:
            self.stats = st; self.stats_id = rid
        return self.write_block() if self.full() else False

    def a(self, r, st, rid=None):
        p = self.params()
        if st is not None:
            self.stats = st; self.stats_id = rid
        if not p["odh"] & 2:
            return False
        key = (r["at"], r.get("ac"), r.get("atf"), r["ip"])
        self.aecs[key] = self.aecs.get(key, 0) + 1
        return self.write_block() if self.full() else False

    def m(self, r, st, rid=None):
        p = self.params()
        self.last_stored = bool(r)
        if st is not None:
            self.stats = st; self.stats_id = rid
        if not p["odh"] & 1:
            return False
        if r:
            self.mms.append(dict(r)); self.mm_ids.append(rid)
        return self.write_block() if self.full() else False

    def wb(self, k, letters):
        """write_block(block) with a block the application built itself (here: one query/response holding client_port 53 per
        letter 'p', under parameter set k): goes to the output as it is; the exporter's own buffered records are not touched"""
        qrs = [{"cport": 53} for c in letters if c == "p"]
        if not qrs:
            return False
        if self.blocks_written == 0:
            self.out_preamble[-1] = len(self.bps)
            self.out_preamble_bps[-1] = [dict(b) for b in self.bps]
        self.outputs[-1].append({"pi": k, "st": None, "qrs": qrs, "aecs": {}, "mms": [], "qr_ids": [None] * len(qrs), "mm_ids": [],
                                 "st_id": None})
        self.blocks_written += 1
        return True

    def rotate(self, export):
        w = self.write_block() if export else False
        w = w or self.blocks_written > 0          # the closing break is counted in the return value
        self.outputs.append([])
        self.out_preamble.append(None)
        self.out_preamble_bps.append(None)
        self.blocks_written = 0
        return w

    def add_bp(self, bp):
        self.bps.append(dict(bp))
        return len(self.bps) - 1

    def edit_hints(self, h):
        """in-place edit through get_active_block_parameters_ref(): seen by the block at its next reset, by a preamble when written"""
        self.bps[self.active].update(h)

    def set_active(self, i):
        if i >= len(self.bps):
            return False
        self.active = i
        return True


def show_aec(key, n):
    at, ac, atf, ip = key
    parts = ["at=%d" % at]
    if ac is not None:
        parts.append("ac=%d" % ac)
    if atf is not None:
        parts.append("atf=%d" % atf)
    parts += ["ip=" + G.xh(ip), "n=%d" % n]
    return "A{" + ",".join(parts) + "}"


def block_dump(b):
    parts = ["pi=%d" % b["pi"]]
    if b["st"] is not None:
        parts.append("st=" + G.show_stats(b["st"]))
    parts += [G.show_rec("Q", G.QR_KEYS, q) for q in b["qrs"]]
    parts += sorted(show_aec(k, n) for k, n in b["aecs"].items())
    parts += [G.show_rec("M", G.MM_KEYS, m) for m in b["mms"]]
    return "B{" + ";".join(parts) + "}"


def preamble_dump(fp, bps):
    h = "F{maj=%d,min=%d" % (fp.get("maj", 1), fp.get("min", 0))
    if fp.get("priv") is not None:
        h += ",priv=%d" % fp["priv"]
    return h + "}" + "".join(G.expected_bp_dump(b) for b in bps)


def file_dump(fp, bps, blocks):
    return " ".join([preamble_dump(fp, bps)] + [block_dump(b) for b in blocks] + ["EOF"])


# ------------------------------------------------------------------------------------------------
NAME_TAILS = [".part", ".part1", ".parts", "a.part.b", ".gz", ".xz.part", ".PART", "part"]


def make_session(fp, bps, ops, target="fd", compress="n", end_flush=True, destroy=True, name_tail=""):
    """ops: ("Q"|"A"|"M", rec, stats|None) | ("W",) | ("SA", i) | ("C",) | ("R", target, export) | ("AB", bp)
    -> (line, ref, expected results)"""
    toks = ["FP:" + ",".join("%s=%d" % kv for kv in fp.items())] + [G.bp_token(b) for b in bps]
    if name_tail:
        toks.append("NM:" + name_tail)        # named outputs whose names contain or end in ".part", a compression suffix, ...
    toks.append("X:%s:%s" % (target, compress))
    ref = RefExporter(fp, bps)
    ndefined = len(bps)
    defined = list(bps)
    exp = []
    def ps(b):
        d = {"max": 10000, "odh": 3}; d.update(b)
        return "%d:%d:%d" % (d["max"], 1 if d["odh"] & 2 else 0, 1 if d["odh"] & 1 else 0)
    ab = [",".join(ps(b) for b in bps)]          # abstract session for the Lean exporter model
    ab_ok = True                                 # (in-place parameter edits are outside the abstract model)
    aec_ids = {}
    for n, op in enumerate(ops):
        k = op[0]
        if k in ("Q", "A", "M"):
            st = op[2]
            sts = "" if st is None else ";st=" + G.show_stats(st)
            keys = {"Q": G.QR_KEYS, "A": G.AEC_KEYS, "M": G.MM_KEYS}[k]
            toks.append(k + ":" + G.show_fields(keys, op[1]) + sts)
            exp.append(("ret", {"Q": ref.q, "A": ref.a, "M": ref.m}[k](op[1], st, n)))
            sid = "-" if st is None else str(n)
            if k == "A":
                key = (op[1]["at"], op[1].get("ac"), op[1].get("atf"), op[1]["ip"])
                ab.append("A:%d:%s" % (aec_ids.setdefault(key, len(aec_ids)), sid))
            else:
                ab.append("%s:%d:%d:%s" % (k, n, 1 if ref.last_stored else 0, sid))
        elif k == "W":
            toks.append("W"); exp.append(("ret", ref.write_block())); ab.append("W")
        elif k == "SA":
            toks.append("SA:%d" % op[1]); exp.append(("lit", "t" if ref.set_active(op[1]) else "f")); ab.append("S:%d" % op[1])
        elif k == "C":
            toks.append("C"); exp.append(("lit", "c=%d.%d.%d.%d.%d" % ref.counts())); ab.append("C")
        elif k == "R":
            toks.append("R:%s:%d" % (op[1], 1 if op[2] else 0)); exp.append(("ret", ref.rotate(bool(op[2]))))
            ab.append("R:%d" % (1 if op[2] else 0))
        elif k == "WB":
            toks.append("WB:%d:%s" % (op[1], op[2])); exp.append(("ret", ref.wb(op[1], op[2]))); ab_ok = False
        elif k == "EH":
            toks.append("EH:%d:%d:%d:%d" % (op[1]["qrh"], op[1]["sigh"], op[1]["rrh"], op[1]["odh"])); ref.edit_hints(op[1])
            exp.append(("lit", "ok")); ab_ok = False
        elif k == "AB":
            toks.append(G.bp_token(op[1])); toks.append("AB:%d" % ndefined); ndefined += 1
            defined.append(op[1])
            exp.append(("lit", "i%d" % ref.add_bp(op[1]))); ab.append("P:" + ps(op[1]))
        elif k == "ABA":
            # a set already in the preamble is duplicated by passing a reference to it (get_block_parameters(i) /
            # get_active_block_parameters_ref()) back to add_block_parameters
            src = dict(ref.bps[op[1]])
            toks.append("ABA:%d" % op[1])
            exp.append(("lit", "i%d" % ref.add_bp(src))); ab.append("P:" + ps(src))
        elif k == "ABR":
            # the caller's parameter-set object #op[1] is handed to add_block_parameters once more (it is the caller's: adding it
            # must not have changed it)
            toks.append("AB:%d" % op[1])
            exp.append(("lit", "i%d" % ref.add_bp(defined[op[1]]))); ab.append("P:" + ps(defined[op[1]]))
    if end_flush:
        toks.append("W"); exp.append(("ret", ref.write_block())); ab.append("W")
    if destroy:
        toks.append("D")
    ref.abstract = "exm " + " ".join(ab) if ab_ok else None
    ref.aec_ids = aec_ids
    return "exp " + " ".join(toks), ref, exp


def structure(ref):
    """the reference's outputs in the notation of the Lean exporter model driver"""
    outs = []
    for blocks in ref.outputs:
        bl = []
        for b in blocks:
            aec = ".".join("%d*%d" % (ref.aec_ids[k], n) for k, n in b["aecs"].items())
            bl.append("%d/%s/%s/%s/%s" % (b["pi"], "-" if b["st_id"] is None else b["st_id"], ".".join(map(str, b["qr_ids"])), aec,
                                       ".".join(map(str, b["mm_ids"]))))
        outs.append("+".join(bl))
    return ";".join(outs)


def expected_model_answer(ref, exp_results):
    rs = []
    for kind, e in exp_results:
        rs.append(e if kind == "lit" else ("n" if e else "z"))
    return "M %s | %s" % (" ".join(rs), structure(ref))


def gen_session(rng, nops=None, rotations=False, compress="n", target="fd", nbps=None, maxes=None, simple_bp=True,
                stats_p=0.3, end_flush=True, late_bps=False, same_name_p=0.0):
    """random session -> (line, ref, expected results)"""
    pools = G.Pools(rng)
    nb = nbps or rng.choice([1, 1, 2, 3])
    tps = rng.choice([1, 1000, 10**6, 10**9])
    bps = [G.gen_bp(rng, simple=simple_bp, tps=rng.choice([tps, tps, rng.choice([1, 1000, 10**6])]),
                    maxb=rng.choice(maxes) if maxes else None) for _ in range(nb)]
    fp = {"maj": 1, "min": 0}
    k = rng.random()
    if k < 0.5:
        fp["priv"] = 1
    elif k < 0.7:
        fp["priv"] = rng.randrange(256)
    # a shadow exporter tells the generator which parameters are in force while it generates
    shadow = RefExporter(fp, bps)
    ops = []
    n = nops if nops is not None else rng.randrange(1, 25)
    base = (rng.choice([0, 5, 1636068056]), 0)
    for _ in range(n):
        k = rng.randrange(100)
        st = G.gen_stats(rng) if rng.random() < stats_p else None
        cur_tps = shadow.params()["tps"]
        if k < 45:
            r = G.gen_qr(rng, pools, p_present=rng.choice([0.15, 0.5, 0.9]), base_ts=base, tps=cur_tps)
            ops.append(("Q", r, st)); shadow.q(r, st)
        elif k < 60:
            r = G.gen_aec(rng, pools)
            ops.append(("A", r, st)); shadow.a(r, st)
        elif k < 75:
            r = G.gen_mm(rng, pools, base_ts=base, tps=cur_tps)
            ops.append(("M", r, st)); shadow.m(r, st)
        elif k < 83:
            ops.append(("W",)); shadow.write_block()
        elif k < 90:
            i = rng.randrange(0, len(shadow.bps) + 1)
            # documented duty: a set added after the output already holds blocks is activated only after rotation
            if i < len(shadow.bps) and shadow.out_preamble[-1] is not None and i >= shadow.out_preamble[-1]:
                continue
            ops.append(("SA", i)); shadow.set_active(i)
        elif k < 94:
            ops.append(("C",))
        elif k < 95:
            # a block the application built itself, written between the buffer calls (it must not disturb what is buffered)
            lim = shadow.out_preamble[-1] if shadow.out_preamble[-1] is not None else len(shadow.bps)
            i = rng.randrange(0, lim)
            letters = "p" * rng.choice([1, 1, 2])
            ops.append(("WB", i, letters)); shadow.wb(i, letters)
        elif rotations and k < 99:
            export = rng.randrange(2)
            # (named outputs) sometimes the new name is the name of the output that is open
            ops.append(("R", "same" if target == "nm" and rng.random() < same_name_p else target, export)); shadow.rotate(bool(export))
        elif late_bps:
            bp = G.gen_bp(rng, simple=simple_bp, tps=tps)
            ops.append(("AB", bp)); shadow.add_bp(bp)
    tail = rng.choice(NAME_TAILS) if target == "nm" and rng.random() < 0.35 else ""
    return make_session(fp, bps, ops, target=target, compress=compress, end_flush=end_flush, name_tail=tail)


def alignment_sweep(rng, lengths, target="fd", compress="n", rotate=False):
    """sessions in which a stretched string member moves every later write across all positions of the encoder's staging
    buffer: a record with 64-bit members, statistics and the closing break follow a name of length L, for every L"""
    out = []
    fp = {"maj": 1, "min": 0, "priv": 1}
    for L in lengths:
        bps = [{"tps": 1000000000, "max": 3, "qrh": G.ALL_QRH, "sigh": G.ALL_SIGH, "rrh": 3, "odh": 3}]
        pad = bytes([65 + (L % 26)]) * L
        big = {"ts": (1636068056, 999999999), "qs": 2**64 - 1, "rs": 2**32, "rd": -2**63, "rtt": 2**63 - 1, "cport": 65535,
               "asn": b"AS4200001234" + pad[:L % 7]}
        ops = [("Q", {"qn": pad, "cport": 1}, None), ("Q", dict(big), [2**32 - 1, None, 7, None, None, 0]),
               ("A", {"at": 1, "ip": bytes([10, 0, 0, L % 256])}, None)]
        if rotate:
            ops += [("R", target, 1), ("Q", dict(big), None), ("R", target, L % 2), ("Q", {"cport": 2, "asn": pad}, None)]
        else:
            ops += [("W",), ("Q", dict(big), None)]
        out.append(make_session(fp, bps, ops, target=target, compress=compress))
        # the plainest shape: the output's only variable part is one string, which is also the last thing written before the
        # closing break (so every residue of the output size modulo the staging buffer occurs, up to string-head growth)
        out.append(make_session(fp, bps, [("Q", {"cport": 2, "asn": pad}, None)] + ([("R", target, 1)] if rotate and L % 3 == 0 else []),
                                target=target, compress=compress, destroy=(L % 3 != 1) or not rotate))
        if L % 3 == 1 and rotate:
            out[-1] = make_session(fp, bps, [("Q", {"cport": 2, "asn": pad}, None), ("W",), ("R", target, 0)], target=target, compress=compress)
    return out
