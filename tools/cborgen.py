"""RFC 8949 item generator (full grammar: every head width, definite/indefinite containers, chunked
strings, tags, simple values, floats) with ground-truth values; used by C07, C08, C03."""
import struct

WIDTHS = [("imm", 0, 24), ("w1", 1, 2**8), ("w2", 2, 2**16), ("w4", 4, 2**32), ("w8", 8, 2**64)]


def head(major, n, width=None):
    """bytes of a head; width None = preferred"""
    if width is None:
        for name, nb, bound in WIDTHS:
            if n < bound:
                width = name
                break
    for i, (name, nb, bound) in enumerate(WIDTHS):
        if name == width:
            assert n < bound, (n, width)
            if nb == 0:
                return bytes([major * 32 + n])
            return bytes([major * 32 + 23 + i]) + n.to_bytes(nb, "big")
    raise ValueError(width)


def rand_width(rng, n, nonpreferred=True):
    ok = [name for name, nb, bound in WIDTHS if n < bound]
    if not nonpreferred:
        return ok[0]
    return rng.choice(ok)


class Item:
    """kind, enc (bytes), value (python ground truth), children"""
    def __init__(self, kind, enc, value=None, children=(), meta=None):
        self.kind, self.enc, self.value, self.children, self.meta = kind, enc, value, list(children), meta

    def __repr__(self):
        return "%s(%s)" % (self.kind, self.enc.hex() if len(self.enc) < 40 else "%d bytes" % len(self.enc))


BOUNDARY = [0, 1, 23, 24, 255, 256, 65535, 65536, 2**32 - 1, 2**32, 2**63 - 1, 2**63, 2**64 - 1]


def g_uint(rng, n=None, w=None):
    if n is None:
        n = rng.choice([rng.choice(BOUNDARY), rng.randrange(2**64), rng.randrange(1000), rng.randrange(24)])
    w = w or rand_width(rng, n)
    return Item("uint", head(0, n, w), n, meta=w)


def g_nint(rng, n=None, w=None):
    if n is None:
        n = rng.choice([rng.choice(BOUNDARY), rng.randrange(2**64), rng.randrange(1000), rng.randrange(24)])
    w = w or rand_width(rng, n)
    return Item("nint", head(1, n, w), -1 - n, meta=w)


def rand_bytes(rng, L):
    return bytes(rng.randrange(256) for _ in range(L))


def g_str(rng, major, maxlen=40, chunked=None):
    kind = "bstr" if major == 2 else "tstr"
    if chunked is None:
        chunked = rng.random() < 0.35
    if not chunked:
        L = rng.choice([0, 1, rng.randrange(0, maxlen), 23, 24, 255, 256][: 5 if maxlen < 256 else 7])
        data = rand_bytes(rng, L)
        return Item(kind, head(major, L, rand_width(rng, L)) + data, data)
    chunks = [rand_bytes(rng, rng.choice([0, 1, rng.randrange(0, max(1, maxlen // 2))])) for _ in range(rng.randrange(0, 5))]
    enc = bytes([major * 32 + 31]) + b"".join(head(major, len(c), rand_width(rng, len(c))) + c for c in chunks) + b"\xff"
    return Item(kind + "I", enc, b"".join(chunks), meta=len(chunks))


def g_simple(rng):
    k = rng.randrange(6)
    if k == 0:
        b = rng.randrange(2)
        return Item("bool", bytes([0xf4 + b]), bool(b))
    if k == 1:
        n = rng.randrange(24)
        return Item("simple", bytes([0xe0 + n]), n)
    if k == 2:
        n = rng.randrange(32, 256)
        return Item("simple1", bytes([0xf8, n]), n)
    if k == 3:
        return Item("f16", b"\xf9" + rand_bytes(rng, 2))
    if k == 4:
        return Item("f32", b"\xfa" + rand_bytes(rng, 4))
    return Item("f64", b"\xfb" + rand_bytes(rng, 8))


def g_item(rng, depth=4, maxlen=40):
    k = rng.randrange(100)
    if depth <= 0 or k < 45:
        j = rng.randrange(5)
        if j == 0:
            return g_uint(rng)
        if j == 1:
            return g_nint(rng)
        if j == 2:
            return g_str(rng, 2, maxlen)
        if j == 3:
            return g_str(rng, 3, maxlen)
        return g_simple(rng)
    if k < 60:
        return g_arr(rng, depth, maxlen)
    if k < 75:
        return g_map(rng, depth, maxlen)
    if k < 90:
        n = rng.choice([0, 1, 2, 55799, rng.randrange(2**64), rng.choice(BOUNDARY)])
        c = g_item(rng, depth - 1, maxlen)
        return Item("tag", head(6, n, rand_width(rng, n)) + c.enc, ("tag", n), [c])
    return g_item(rng, 0, maxlen)


def g_arr(rng, depth=3, maxlen=40, indef=None, n=None):
    n = rng.randrange(0, 5) if n is None else n
    items = [g_item(rng, depth - 1, maxlen) for _ in range(n)]
    if indef is None:
        indef = rng.random() < 0.4
    body = b"".join(i.enc for i in items)
    if indef:
        return Item("arrI", b"\x9f" + body + b"\xff", n, items)
    return Item("arr", head(4, n, rand_width(rng, n)) + body, n, items)


def g_map(rng, depth=3, maxlen=40, indef=None, n=None):
    n = rng.randrange(0, 4) if n is None else n
    items = [g_item(rng, depth - 1, maxlen) for _ in range(2 * n)]
    if indef is None:
        indef = rng.random() < 0.4
    body = b"".join(i.enc for i in items)
    if indef:
        return Item("mapI", b"\xbf" + body + b"\xff", n, items)
    return Item("map", head(5, n, rand_width(rng, n)) + body, n, items)


def nested_tags(depth):
    return Item("tag", b"\xc1" * depth + b"\x01", ("tag", 1))


def nested(depth, indef=False):
    """depth nested one-element arrays around uint 1"""
    if indef:
        return Item("arrI", b"\x9f" * depth + b"\x01" + b"\xff" * depth, 1)
    return Item("arr", b"\x81" * depth + b"\x01", 1)


# ---------------------------------------------------------------------------------------------
# parsing and re-encoding (used by C05: block boundaries, C08: semantics-preserving rewrites)
class Node:
    __slots__ = ("major", "arg", "width", "indef", "data", "children", "chunks", "start", "end", "simple")

    def __init__(self, major):
        self.major = major; self.arg = 0; self.width = None; self.indef = False; self.data = b""
        self.children = []; self.chunks = None; self.start = self.end = 0; self.simple = None


def _head(b, pos):
    ib = b[pos]; major, ai = ib >> 5, ib & 31
    pos += 1
    if ai < 24:
        return major, ai, "imm", pos
    if ai == 31:
        return major, None, None, pos
    nb = {24: 1, 25: 2, 26: 4, 27: 8}[ai]
    return major, int.from_bytes(b[pos:pos + nb], "big"), {24: "w1", 25: "w2", 26: "w4", 27: "w8"}[ai], pos + nb


def parse(b, pos=0):
    """strict enough for files produced by the exporter; returns (Node, newpos)"""
    start = pos
    ib = b[pos]
    major, ai = ib >> 5, ib & 31
    n = Node(major); n.start = start
    if major == 7:
        nb = {24: 1, 25: 2, 26: 4, 27: 8}.get(ai, 0)
        n.simple = b[pos:pos + 1 + nb]
        n.end = pos + 1 + nb
        return n, n.end
    major, arg, width, pos = _head(b, pos)
    n.arg, n.width, n.indef = arg, width, arg is None
    if major in (0, 1):
        pass
    elif major in (2, 3):
        if n.indef:
            n.chunks = []
            while b[pos] != 0xff:
                _, clen, cw, pos = _head(b, pos)
                n.chunks.append(b[pos:pos + clen]); pos += clen
            pos += 1
            n.data = b"".join(n.chunks)
        else:
            n.data = b[pos:pos + arg]; pos += arg
    elif major in (4, 5):
        if n.indef:
            while b[pos] != 0xff:
                c, pos = parse(b, pos); n.children.append(c)
            pos += 1
        else:
            for _ in range(arg * (2 if major == 5 else 1)):
                c, pos = parse(b, pos); n.children.append(c)
    elif major == 6:
        c, pos = parse(b, pos); n.children.append(c)
    n.end = pos
    return n, pos


def encode(n, rng=None, p=0.0, unknown=None):
    """re-encode; with rng and p>0 applies random semantics-preserving rewrites at each node:
    definite<->indefinite, chunking, head widening, map member permutation, unknown map members"""
    def flip():
        return rng is not None and rng.random() < p
    def hd(major, arg):
        if rng is not None and flip():
            return head(major, arg, rand_width(rng, arg))
        return head(major, arg)
    m = n.major
    if m == 7:
        return bytes(n.simple)
    if m in (0, 1):
        return hd(m, n.arg)
    if m in (2, 3):
        indef = n.indef != flip()
        if indef:
            data = n.data
            chunks = []
            if rng is not None and data:
                k = rng.randrange(1, 4)
                cuts = sorted(rng.randrange(0, len(data) + 1) for _ in range(k - 1))
                prev = 0
                for c in cuts + [len(data)]:
                    chunks.append(data[prev:c]); prev = c
            elif data:
                chunks = [data]
            if rng is not None and rng.random() < 0.2:
                chunks.insert(rng.randrange(len(chunks) + 1), b"")
            return bytes([m * 32 + 31]) + b"".join(hd(m, len(c)) + c for c in chunks) + b"\xff"
        return hd(m, len(n.data)) + n.data
    if m == 4:
        body = b"".join(encode(c, rng, p, unknown) for c in n.children)
        if n.indef != flip():
            return b"\x9f" + body + b"\xff"
        return hd(4, len(n.children)) + body
    if m == 5:
        pairs = [(n.children[i], n.children[i + 1]) for i in range(0, len(n.children), 2)]
        enc_pairs = [encode(k, rng, p, unknown) + encode(v, rng, p, unknown) for k, v in pairs]
        if rng is not None and unknown is not None and flip():
            used = set()
            for _ in range(rng.randrange(1, 3)):
                enc_pairs.append(unknown(rng, used))
        if rng is not None and flip():
            rng.shuffle(enc_pairs)
        body = b"".join(enc_pairs)
        if n.indef != flip():
            return b"\xbf" + body + b"\xff"
        return hd(5, len(enc_pairs)) + body
    if m == 6:
        return hd(6, n.arg) + encode(n.children[0], rng, p, unknown)
    raise ValueError(m)


def unknown_member(rng, used=None):
    """an unknown integer key (never a C-DNS key, distinct within one map) with an arbitrary well-formed value"""
    used = set() if used is None else used
    while True:
        k = rng.choice([rng.randrange(40, 5000), -rng.randrange(10, 5000), 2**63 - 1, 2**63, 2**64 - 1, -2**63, -2**64])
        if k not in used:
            used.add(k)
            break
    key = head(0, k, rand_width(rng, k)) if k >= 0 else head(1, -1 - k, rand_width(rng, -1 - k))
    return key + g_item(rng, depth=rng.choice([0, 1, 3, 5]), maxlen=20).enc
