// T3 of tools/translate.py: SEMANTIC extraction of the struct schemas from the working tree.
//
// For every struct with a `write`/`read` pair the probe runs the library's own functions:
//   BASE  <S> k…                keys `S().write()` emits (members that are always written)
//   W     <S> <member> <key> <sig>   the member set alone (to the all-ones value of ITS OWN type): which key appears / changes,
//                                and the kind of the item written for it (u8/u16/u32/u64 from the value that survived the
//                                member type and the write overload, i64, tstr, bstr, bool, arr(…), struct)
//   ORDER <S> k…                keys in the order they are written when every member is set
//   REQ   <S> <key> <0|1>       does `S::read` throw when exactly that member is missing from the all-members encoding
//   R     <S> <key> <sig>       reader-side width of an unsigned member: its value replaced by 2^64-1, read, written again
//   RT    <S> <0|1>             `read` of the all-members encoding followed by `write` reproduces the bytes
// Nothing is parsed from the source text: a refactoring of the writers/readers that keeps their behaviour leaves the
// output unchanged; a changed key, width, order, presence rule or mandatory-member check changes it.
// Built with -fno-access-control (FilePreamble keeps its members private).
#include <cstdint>
#include <cstdio>
#include <functional>
#include <limits>
#include <sstream>
#include <string>
#include <type_traits>
#include <vector>
#include <sys/mman.h>
#include <unistd.h>
#include "block.h"
#include "cdns_decoder.h"
#include "cdns_encoder.h"
#include "file_preamble.h"
#include "interface.h"
#include "timestamp.h"
using namespace CDNS;

struct It { int major = 0; uint64_t arg = 0; bool indef = false; size_t begin = 0, end = 0; std::vector<It> kids; };

static It parse(const std::string& s, size_t& p) {
    It it; it.begin = p;
    unsigned char b = s.at(p++);
    it.major = b >> 5;
    int ai = b & 31;
    if (ai < 24) it.arg = ai;
    else if (ai <= 27) { int n = 1 << (ai - 24); it.arg = 0; for (int i = 0; i < n; i++) it.arg = (it.arg << 8) | (unsigned char)s.at(p++); }
    else if (ai == 31) it.indef = true;
    else throw std::runtime_error("bad head");
    switch (it.major) {
        case 2: case 3:
            if (it.indef) { while ((unsigned char)s.at(p) != 0xff) it.kids.push_back(parse(s, p)); p++; }
            else { if (p + it.arg > s.size()) throw std::runtime_error("short string"); p += it.arg; }
            break;
        case 4: case 5: {
            if (it.indef) { while ((unsigned char)s.at(p) != 0xff) it.kids.push_back(parse(s, p)); p++; }
            else { uint64_t n = it.major == 4 ? it.arg : 2 * it.arg; for (uint64_t i = 0; i < n; i++) it.kids.push_back(parse(s, p)); }
            break; }
        case 6: it.kids.push_back(parse(s, p)); break;
        default: break;
    }
    it.end = p;
    return it;
}

static std::string sig(const It& it) {
    switch (it.major) {
        case 0: {
            uint64_t v = it.arg;
            if (v == UINT64_MAX) return "u64";
            for (int b = 1; b < 64; b++) if (v == (1ull << b) - 1 && b >= 8) return "u" + std::to_string(b);
            return "uint"; }
        case 1: return it.arg == (uint64_t)INT64_MAX ? "i64" : "nint";
        case 2: return "bstr";
        case 3: return "tstr";
        case 4: return "arr(" + (it.kids.empty() ? std::string("?") : sig(it.kids[0])) + ")";
        case 5: return "struct";
        case 7: return (it.arg == 20 || it.arg == 21) ? "bool" : "simple";
        default: return "other";
    }
}

static long long key_of(const It& k) {
    if (k.major == 0) return (long long)k.arg;
    if (k.major == 1) return -1 - (long long)k.arg;
    throw std::runtime_error("non-integer key");
}

static std::string emit(const std::function<void(CdnsEncoder&)>& f) {
    int fd = memfd_create("t3", 0);
    int keep = dup(fd);
    { CdnsEncoder enc(fd, CborOutputCompression::NO_COMPRESSION); f(enc); }
    std::string out; char buf[4096]; off_t off = 0; ssize_t n;
    while ((n = pread(keep, buf, sizeof buf, off)) > 0) { out.append(buf, n); off += n; }
    close(keep);
    return out;
}

// the all-ones / extreme value of a member's OWN type
template<class T> typename std::enable_if<std::is_integral<T>::value && !std::is_same<T, bool>::value>::type mx(T& v) {
    v = std::is_signed<T>::value ? std::numeric_limits<T>::min() : std::numeric_limits<T>::max(); }
template<class T> typename std::enable_if<std::is_enum<T>::value>::type mx(T& v) {
    v = static_cast<T>(std::numeric_limits<typename std::underlying_type<T>::type>::max()); }
static void mx(bool& v) { v = true; }
static void mx(std::string& v) { v = "x"; }
static void mx(Timestamp& t) { t = Timestamp(UINT64_MAX, UINT64_MAX); }
template<class T> typename std::enable_if<std::is_class<T>::value && !std::is_same<T, std::string>::value && !std::is_same<T, Timestamp>::value>::type mx(T&) {}
template<class T> void mx(std::vector<T>& v) { v.clear(); T e{}; mx(e); v.push_back(e); }
template<class T> void mx(boost::optional<T>& o) { T e{}; mx(e); o = e; }
// a time offset is the difference to the block's earliest time: the largest one the API can produce is 2^63-1 ticks
static void mxoff(boost::optional<Timestamp>& o) { o = Timestamp((uint64_t)INT64_MAX, 0); }

template<class S> struct Probe {
    const char* name;
    std::function<std::size_t(S&, CdnsEncoder&)> wr;
    std::vector<std::pair<const char*, std::function<void(S&)>>> members;
};

struct KV { long long key; std::string bytes; It val; };
static std::vector<KV> members_of(const std::string& bytes) {
    size_t p = 0; It m = parse(bytes, p);
    if (m.major != 5 || p != bytes.size()) throw std::runtime_error("not exactly one map");
    std::vector<KV> out;
    for (size_t i = 0; i + 1 < m.kids.size(); i += 2)
        out.push_back({key_of(m.kids[i]), bytes.substr(m.kids[i].begin, m.kids[i + 1].end - m.kids[i].begin), m.kids[i + 1]});
    return out;
}

template<class S> static void run(const Probe<S>& pr) {
    auto bytes_of = [&](S& s) { return emit([&](CdnsEncoder& e) { pr.wr(s, e); }); };
    S base{};
    auto bm = members_of(bytes_of(base));
    std::printf("BASE %s", pr.name); for (auto& kv : bm) std::printf(" %lld", kv.key); std::printf("\n");
    for (auto& mb : pr.members) {
        S s{}; mb.second(s);
        auto mm = members_of(bytes_of(s));
        std::vector<const KV*> diff;
        for (auto& kv : mm) {
            const KV* old = nullptr;
            for (auto& b : bm) if (b.key == kv.key) old = &b;
            if (!old || old->bytes != kv.bytes) diff.push_back(&kv);
        }
        if (diff.size() != 1) { std::printf("W %s %s AMBIGUOUS %zu\n", pr.name, mb.first, diff.size()); continue; }
        std::printf("W %s %s %lld %s\n", pr.name, mb.first, diff[0]->key, sig(diff[0]->val).c_str());
    }
    S all{}; for (auto& mb : pr.members) mb.second(all);
    std::string ab = bytes_of(all);
    auto am = members_of(ab);
    std::printf("ORDER %s", pr.name); for (auto& kv : am) std::printf(" %lld", kv.key); std::printf("\n");
    auto try_read = [&](const std::string& bs, S& into) -> int {
        std::istringstream is(bs); CdnsDecoder dec(is);
        try { into.read(dec); return 0; } catch (CdnsDecoderException&) { return 1; } catch (std::exception&) { return 2; }
    };
    for (size_t i = 0; i < am.size(); i++) {
        std::string bs; bs.push_back((char)(0xa0 + (am.size() - 1)));
        for (size_t j = 0; j < am.size(); j++) if (j != i) bs += am[j].bytes;
        S t{}; std::printf("REQ %s %lld %d\n", pr.name, am[i].key, try_read(bs, t));
    }
    // reader-side width: the member's value replaced by 2^64-1 (a foreign writer's file), read, written again
    for (size_t i = 0; i < am.size(); i++) {
        if (am[i].val.major != 0 || am[i].val.arg == (uint64_t)INT64_MAX) continue;
        std::string bs; bs.push_back((char)(0xa0 + am.size()));
        for (size_t j = 0; j < am.size(); j++) {
            if (j != i) { bs += am[j].bytes; continue; }
            size_t p = 0; It k = parse(am[j].bytes, p);
            bs += am[j].bytes.substr(0, k.end) + std::string("\x1b\xff\xff\xff\xff\xff\xff\xff\xff", 9);
        }
        S t{}; int rc = try_read(bs, t);
        std::string rs = "throws";
        if (rc == 0) { rs = "absent"; for (auto& kv : members_of(bytes_of(t))) if (kv.key == am[i].key) rs = sig(kv.val); }
        std::printf("R %s %lld %s\n", pr.name, am[i].key, rs.c_str());
    }
    S back{}; int rc = try_read(ab, back);
    std::string again = rc == 0 ? bytes_of(back) : std::string();
    std::printf("RT %s %d\n", pr.name, (rc == 0 && again == ab) ? 1 : 0);
}

// The block itself and its tables map: a block holding one of everything (a query/response with all sections, an address
// event, a malformed message with payload, statistics) built through the generic record interface, written, parsed.
static void report_map(const char* name, const std::string& bytes, const It& m, bool with_req,
                       const std::function<int(const std::string&)>& try_read) {
    std::vector<KV> am;
    for (size_t i = 0; i + 1 < m.kids.size(); i += 2)
        am.push_back({key_of(m.kids[i]), bytes.substr(m.kids[i].begin, m.kids[i + 1].end - m.kids[i].begin), m.kids[i + 1]});
    std::printf("BASE %s\n", name);
    for (auto& kv : am) std::printf("W %s k%lld %lld %s\n", name, kv.key, kv.key, sig(kv.val).c_str());
    std::printf("ORDER %s", name); for (auto& kv : am) std::printf(" %lld", kv.key); std::printf("\n");
    for (size_t i = 0; i < am.size(); i++) {
        int rc = 0;
        if (with_req) {
            std::string bs; bs.push_back((char)(0xa0 + (am.size() - 1)));
            for (size_t j = 0; j < am.size(); j++) if (j != i) bs += am[j].bytes;
            rc = try_read(bs);
        }
        std::printf("REQ %s %lld %d\n", name, am[i].key, rc);
    }
    std::printf("RT %s %d\n", name, try_read(bytes.substr(m.begin, m.end - m.begin)) == 0 ? 1 : 0);
}

static void probe_block() {
    BlockParameters bp;
    CdnsBlock b(bp, 0);
    GenericResourceRecord rr; rr.name = std::string("\x03www\x00", 5); rr.classtype.type = 1; rr.classtype.class_ = 1; rr.ttl = 5; rr.rdata = std::string("rd");
    GenericQueryResponse g;
    g.ts = Timestamp(100, 5); g.client_ip = std::string("\x0a\x00\x00\x01", 4); g.server_ip = std::string("\x0a\x00\x00\x02", 4); g.query_opcode = 0;
    g.query_name = std::string("\x03""abc\x00", 5);
    g.query_questions = std::vector<GenericResourceRecord>{ rr }; g.query_answers = std::vector<GenericResourceRecord>{ rr };
    BlockStatistics st; st.processed_messages = 1;
    b.add_question_response_record(g, st);
    GenericAddressEventCount ae; ae.ae_type = static_cast<AddressEventTypeValues>(0); ae.ip_address = std::string("\x0a\x00\x00\x04", 4);
    b.add_address_event_count(ae, boost::none);
    GenericMalformedMessage mm; mm.ts = Timestamp(101, 0); mm.mm_payload = std::string("junk");
    b.add_malformed_message(mm, boost::none);
    std::string bytes = emit([&](CdnsEncoder& e) { b.write(e); });
    size_t p = 0; It m = parse(bytes, p);
    if (m.major != 5 || p != bytes.size()) throw std::runtime_error("block: not exactly one map");
    std::vector<BlockParameters> bps{ bp };
    auto try_block = [&](const std::string& bs) -> int {
        std::istringstream is(bs); CdnsDecoder dec(is);
        try { CdnsBlockRead rd(dec, bps); return 0; } catch (CdnsDecoderException&) { return 1; } catch (std::exception&) { return 2; }
    };
    report_map("Block", bytes, m, true, try_block);
    // the tables map is the value of the block's member 2; it is read as part of the block (no mandatory member of its own)
    for (size_t i = 0; i + 1 < m.kids.size(); i += 2)
        if (key_of(m.kids[i]) == 2) {
            const It& t = m.kids[i + 1];
            auto try_tables = [&](const std::string& tb) -> int {
                // the block with its tables member replaced
                std::string bs; bs.push_back((char)(0xa0 + m.kids.size() / 2));
                for (size_t j = 0; j + 1 < m.kids.size(); j += 2) {
                    bs += bytes.substr(m.kids[j].begin, m.kids[j].end - m.kids[j].begin);
                    bs += (j == i) ? tb : bytes.substr(m.kids[j + 1].begin, m.kids[j + 1].end - m.kids[j + 1].begin);
                }
                return try_block(bs);
            };
            report_map("BlockTables", bytes, t, false, try_tables);
        }
}

#define M(S, f) { #f, [](S& s) { mx(s.f); } }
#define PLAIN(S) [](S& s, CdnsEncoder& e) { return s.write(e); }

int main() {
    try {
    run(Probe<ClassType>{"ClassType", PLAIN(ClassType), { M(ClassType, type), M(ClassType, class_) }});
    run(Probe<QueryResponseSignature>{"QueryResponseSignature", PLAIN(QueryResponseSignature), {
        M(QueryResponseSignature, server_address_index), M(QueryResponseSignature, server_port), M(QueryResponseSignature, qr_transport_flags),
        M(QueryResponseSignature, qr_type), M(QueryResponseSignature, qr_sig_flags), M(QueryResponseSignature, query_opcode),
        M(QueryResponseSignature, qr_dns_flags), M(QueryResponseSignature, query_rcode), M(QueryResponseSignature, query_classtype_index),
        M(QueryResponseSignature, query_qdcount), M(QueryResponseSignature, query_ancount), M(QueryResponseSignature, query_nscount),
        M(QueryResponseSignature, query_arcount), M(QueryResponseSignature, query_edns_version), M(QueryResponseSignature, query_udp_size),
        M(QueryResponseSignature, query_opt_rdata_index), M(QueryResponseSignature, response_rcode) }});
    run(Probe<Question>{"Question", PLAIN(Question), { M(Question, name_index), M(Question, classtype_index) }});
    run(Probe<RR>{"RR", PLAIN(RR), { M(RR, name_index), M(RR, classtype_index), M(RR, ttl), M(RR, rdata_index) }});
    run(Probe<MalformedMessageData>{"MalformedMessageData", PLAIN(MalformedMessageData), {
        M(MalformedMessageData, server_address_index), M(MalformedMessageData, server_port), M(MalformedMessageData, mm_transport_flags),
        M(MalformedMessageData, mm_payload) }});
    run(Probe<ResponseProcessingData>{"ResponseProcessingData", PLAIN(ResponseProcessingData), {
        M(ResponseProcessingData, bailiwick_index), M(ResponseProcessingData, processing_flags) }});
    run(Probe<QueryResponseExtended>{"QueryResponseExtended", PLAIN(QueryResponseExtended), {
        M(QueryResponseExtended, question_index), M(QueryResponseExtended, answer_index), M(QueryResponseExtended, authority_index),
        M(QueryResponseExtended, additional_index) }});
    run(Probe<BlockPreamble>{"BlockPreamble", PLAIN(BlockPreamble), { M(BlockPreamble, earliest_time), M(BlockPreamble, block_parameters_index) }});
    run(Probe<BlockStatistics>{"BlockStatistics", PLAIN(BlockStatistics), {
        M(BlockStatistics, processed_messages), M(BlockStatistics, qr_data_items), M(BlockStatistics, unmatched_queries),
        M(BlockStatistics, unmatched_responses), M(BlockStatistics, discarded_opcode), M(BlockStatistics, malformed_items) }});
    {
        Timestamp epoch(0, 0);
        auto wr = [epoch](QueryResponse& s, CdnsEncoder& e) { return s.write(e, epoch, 1); };
        run(Probe<QueryResponse>{"QueryResponse", wr, {
            { "time_offset", [](QueryResponse& s) { mxoff(s.time_offset); } },
            M(QueryResponse, client_address_index), M(QueryResponse, client_port), M(QueryResponse, transaction_id),
            M(QueryResponse, qr_signature_index), M(QueryResponse, client_hoplimit), M(QueryResponse, response_delay),
            M(QueryResponse, query_name_index), M(QueryResponse, query_size), M(QueryResponse, response_size),
            M(QueryResponse, response_processing_data), M(QueryResponse, query_extended), M(QueryResponse, response_extended),
            M(QueryResponse, asn), M(QueryResponse, country_code), M(QueryResponse, round_trip_time) }});
        auto wm = [epoch](MalformedMessage& s, CdnsEncoder& e) { return s.write(e, epoch, 1); };
        run(Probe<MalformedMessage>{"MalformedMessage", wm, {
            { "time_offset", [](MalformedMessage& s) { mxoff(s.time_offset); } },
            M(MalformedMessage, client_address_index), M(MalformedMessage, client_port), M(MalformedMessage, message_data_index) }});
    }
    run(Probe<AddressEventCount>{"AddressEventCount", PLAIN(AddressEventCount), {
        M(AddressEventCount, ae_type), M(AddressEventCount, ae_code), M(AddressEventCount, ae_address_index),
        M(AddressEventCount, ae_transport_flags), M(AddressEventCount, ae_count) }});
    run(Probe<StorageHints>{"StorageHints", PLAIN(StorageHints), {
        M(StorageHints, query_response_hints), M(StorageHints, query_response_signature_hints), M(StorageHints, rr_hints),
        M(StorageHints, other_data_hints) }});
    run(Probe<StorageParameters>{"StorageParameters", PLAIN(StorageParameters), {
        M(StorageParameters, ticks_per_second), M(StorageParameters, max_block_items),
        { "storage_hints", [](StorageParameters& s) { s.storage_hints.rr_hints ^= 1; } },
        M(StorageParameters, opcodes), M(StorageParameters, rr_types), M(StorageParameters, storage_flags),
        M(StorageParameters, client_address_prefix_ipv4), M(StorageParameters, client_address_prefix_ipv6),
        M(StorageParameters, server_address_prefix_ipv4), M(StorageParameters, server_address_prefix_ipv6),
        M(StorageParameters, sampling_method), M(StorageParameters, anonymization_method) }});
    run(Probe<CollectionParameters>{"CollectionParameters", PLAIN(CollectionParameters), {
        M(CollectionParameters, query_timeout), M(CollectionParameters, skew_timeout), M(CollectionParameters, snaplen),
        M(CollectionParameters, promisc), M(CollectionParameters, interfaces), M(CollectionParameters, server_address),
        M(CollectionParameters, vlan_ids), M(CollectionParameters, filter), M(CollectionParameters, generator_id),
        M(CollectionParameters, host_id) }});
    run(Probe<BlockParameters>{"BlockParameters", PLAIN(BlockParameters), {
        { "storage_parameters", [](BlockParameters& s) { s.storage_parameters.max_block_items ^= 1; } },
        M(BlockParameters, collection_parameters) }});
    run(Probe<FilePreamble>{"FilePreamble", PLAIN(FilePreamble), {
        M(FilePreamble, m_major_format_version), M(FilePreamble, m_minor_format_version), M(FilePreamble, m_private_version),
        { "m_block_parameters", [](FilePreamble& s) { s.m_block_parameters.push_back(BlockParameters()); } } }});
    probe_block();
    } catch (std::exception& e) {
        std::printf("ERROR %s\n", e.what());
        return 1;
    }
    return 0;
}
