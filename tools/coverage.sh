#!/bin/bash
# development aid: which lines of /repo/src do the quick-tier workloads execute?  (gcov build of the harness; not a registered check)
set -e
REPO=${CDNS_REPO:-/repo}
OUT=${1:-/tmp/covbuild}
rm -rf $OUT; mkdir -p $OUT
cd $OUT
for f in $REPO/src/*.cpp /verif/harness/*.cpp; do
  extra=""; case $f in /verif/harness/*) extra="-fno-access-control";; esac
  g++ -std=gnu++14 -msse4 -DCDNS_VERIF -I $REPO/src -I /verif/harness -pthread -O0 -g --coverage $extra -c $f -o $OUT/$(basename $f .cpp).o &
done
wait
g++ --coverage $OUT/*.o -rdynamic -lz -llzma -ldl -pthread -o $OUT/harness
echo built $OUT/harness
mkdir -p $OUT/tools
for t in $REPO/src/bin/*.cpp; do
  n=$(basename $t .cpp | tr _ -)
  ( cd $OUT/tools && g++ -std=gnu++14 -msse4 -I $REPO/src -pthread -O0 -g --coverage $t $REPO/src/*.cpp -lz -llzma -o $OUT/tools/$n ) &
done
wait
echo built tools
