#!/usr/bin/env python3
"""Translator: /repo working tree  ->  lean/CdnsVerif/Generated/*.lean

T1  Constants.lean : every enumerator of src/format_specification.h and src/dns.h (names taken
    from the source text, VALUES taken from the compiler by compiling and running a printer
    against the working tree's headers), underlying widths/signedness of the enums, buffer
    sizes, DEFAULT_* and VERSION_* constants, the default opcode / rr-type lists.
T2  Globals.lean   : inventory of writable static-storage symbols and imported symbols of the
    library objects built from the working tree (nm + gdb whatis for const-ness).

The generated files are consumed by theorems that are re-elaborated on every run.
Exit status 0 = translated; non-zero = the translation itself broke (reported by check.py
as a broken obligation).
"""
import os, re, subprocess, sys, hashlib, json, tempfile, shutil, glob

HERE = os.path.dirname(os.path.abspath(__file__))
VERIF = os.path.dirname(HERE)
REPO = os.environ.get("CDNS_REPO", "/repo")
GEN = os.path.join(VERIF, "lean", "CdnsVerif", "Generated")
CACHE = os.path.join(VERIF, ".cache")


def sh(cmd, **kw):
    return subprocess.run(cmd, stdout=subprocess.PIPE, stderr=subprocess.PIPE, text=True, errors="replace", **kw)


def strip_comments(src):
    src = re.sub(r"/\*.*?\*/", "", src, flags=re.S)
    src = re.sub(r"//[^\n]*", "", src)
    return src


def parse_enums(path):
    """[(name, scoped, [enumerator names])] from the source text (names only)."""
    src = strip_comments(open(path).read())
    out = []
    for m in re.finditer(r"enum\s+(class\s+)?(\w+)\s*:\s*[\w:]+\s*\{(.*?)\}", src, flags=re.S):
        scoped = bool(m.group(1))
        name = m.group(2)
        body = m.group(3)
        idents = []
        for part in body.split(","):
            part = part.strip()
            if not part:
                continue
            im = re.match(r"(\w+)", part)
            if im:
                idents.append(im.group(1))
        out.append((name, scoped, idents))
    return out


def lean_ident(s):
    return "«" + s + "»"


PRINTER_HEAD = r'''
#include <cstdio>
#include <cstdint>
#include <type_traits>
#include <vector>
#include "format_specification.h"
#include "dns.h"
#include "file_preamble.h"
#include "cdns_encoder.h"
#include "cdns_decoder.h"
#include "timestamp.h"
#include "interface.h"
#include "block.h"
using namespace CDNS;
template<typename E> static void enum_info(const char* n) {
    typedef typename std::underlying_type<E>::type U;
    std::printf("ENUMTYPE %s %zu %d\n", n, sizeof(U), (int)std::is_signed<U>::value);
}
template<typename T> static void member_info(const char* n) {
    std::printf("MEMBER %s %zu %d\n", n, sizeof(T), (int)std::is_signed<T>::value);
}
#define MEMB(S, f) member_info<std::decay<decltype(*std::declval<S>().f)>::type>(#S "." #f)
#define MEMBP(S, f) member_info<std::decay<decltype(std::declval<S>().f)>::type>(#S "." #f)
int main() {
'''


def t1(workdir):
    enums = []
    for hdr in ("format_specification.h", "dns.h"):
        enums += [(hdr, e) for e in parse_enums(os.path.join(REPO, "src", hdr))]
    body = []
    for hdr, (name, scoped, idents) in enums:
        body.append(f'    enum_info<{name}>("{name}");')
        for i in idents:
            body.append(f'    std::printf("ENUM {name} {i} %lld\\n", (long long)(static_cast<std::underlying_type<{name}>::type>({name}::{i})));')
    consts = [
        ("encBufferSize", "CdnsEncoder::BUFFER_SIZE"),
        ("decBufferSize", "CdnsDecoder::BUFFER_SIZE"),
        ("VERSION_MAJOR", "VERSION_MAJOR"), ("VERSION_MINOR", "VERSION_MINOR"),
        ("VERSION_PRIVATE", "VERSION_PRIVATE"),
        ("DEFAULT_TICKS_PER_SECOND", "DEFAULT_TICKS_PER_SECOND"),
        ("DEFAULT_MAX_BLOCK_ITEMS", "DEFAULT_MAX_BLOCK_ITEMS"),
        ("DEFAULT_QR_HINTS", "DEFAULT_QR_HINTS"), ("DEFAULT_QR_SIG_HINTS", "DEFAULT_QR_SIG_HINTS"),
        ("DEFAULT_RR_HINTS", "DEFAULT_RR_HINTS"), ("DEFAULT_OTHER_DATA_HINTS", "DEFAULT_OTHER_DATA_HINTS"),
        ("sizeof_index_t", "sizeof(index_t)"),
    ]
    for n, e in consts:
        body.append(f'    std::printf("CONST {n} %llu\\n", (unsigned long long)({e}));')
    body.append('    std::printf("LIST OpCodesDefault"); for (auto v : OpCodesDefault) std::printf(" %u", (unsigned)v); std::printf("\\n");')
    body.append('    std::printf("LIST RrTypesDefault"); for (auto v : RrTypesDefault) std::printf(" %u", (unsigned)v); std::printf("\\n");')
    # record member widths the schema table relies on
    membs_opt = {
        "QueryResponseSignature": ["server_address_index", "server_port", "qr_transport_flags", "qr_type",
                                   "qr_sig_flags", "query_opcode", "qr_dns_flags", "query_rcode",
                                   "query_classtype_index", "query_qdcount", "query_ancount", "query_nscount",
                                   "query_arcount", "query_edns_version", "query_udp_size",
                                   "query_opt_rdata_index", "response_rcode"],
        "RR": ["ttl", "rdata_index"],
        "MalformedMessageData": ["server_address_index", "server_port", "mm_transport_flags"],
        "QueryResponse": ["client_address_index", "client_port", "transaction_id", "qr_signature_index",
                          "client_hoplimit", "response_delay", "query_name_index", "query_size",
                          "response_size", "round_trip_time"],
        "BlockStatistics": ["processed_messages", "qr_data_items", "unmatched_queries",
                            "unmatched_responses", "discarded_opcode", "malformed_items"],
        "MalformedMessage": ["client_address_index", "client_port", "message_data_index"],
        "AddressEventCount": ["ae_code", "ae_transport_flags"],
        "ResponseProcessingData": ["bailiwick_index", "processing_flags"],
        "QueryResponseExtended": ["question_index", "answer_index", "authority_index", "additional_index"],
        "BlockPreamble": ["block_parameters_index"],
        "StorageParameters": ["storage_flags", "client_address_prefix_ipv4", "client_address_prefix_ipv6",
                              "server_address_prefix_ipv4", "server_address_prefix_ipv6"],
        "CollectionParameters": ["query_timeout", "skew_timeout", "snaplen"],
        "GenericQueryResponse": ["client_port", "transaction_id", "server_port", "query_opcode", "query_rcode",
                                 "query_qdcount", "query_ancount", "query_nscount", "query_arcount",
                                 "query_edns_version", "query_udp_size", "response_rcode", "client_hoplimit",
                                 "response_delay", "query_size", "response_size", "round_trip_time"],
    }
    membs_plain = {
        "ClassType": ["type", "class_"],
        "Question": ["name_index", "classtype_index"],
        "RR": ["name_index", "classtype_index"],
        "AddressEventCount": ["ae_type", "ae_address_index", "ae_count"],
        "Timestamp": ["m_secs", "m_ticks"],
        "StorageHints": ["query_response_hints", "query_response_signature_hints", "rr_hints", "other_data_hints"],
        "StorageParameters": ["ticks_per_second", "max_block_items"],
    }
    for s, fs in membs_opt.items():
        for f in fs:
            body.append(f"    MEMB({s}, {f});")
    for s, fs in membs_plain.items():
        for f in fs:
            body.append(f"    MEMBP({s}, {f});")
    src = PRINTER_HEAD + "\n".join(body) + "\n    return 0;\n}\n"
    cpp = os.path.join(workdir, "constants_printer.cpp")
    exe = os.path.join(workdir, "constants_printer")
    open(cpp, "w").write(src)
    r = sh(["g++", "-std=gnu++14", "-msse4.2", "-I", os.path.join(REPO, "src"), cpp, "-o", exe])
    if r.returncode != 0:
        sys.stderr.write("T1: printer does not compile against the working tree\n" + r.stderr[-3000:])
        return None
    r = sh([exe])
    if r.returncode != 0:
        sys.stderr.write("T1: printer failed\n" + r.stderr[-2000:])
        return None
    return r.stdout


def emit_constants(text):
    enumtypes, enums, consts, lists, members = {}, {}, {}, {}, {}
    order = []
    for line in text.splitlines():
        p = line.split()
        if p[0] == "ENUMTYPE":
            enumtypes[p[1]] = (int(p[2]), int(p[3]))
            order.append(p[1]); enums[p[1]] = []
        elif p[0] == "ENUM":
            enums[p[1]].append((p[2], int(p[3])))
        elif p[0] == "CONST":
            consts[p[1]] = int(p[2])
        elif p[0] == "LIST":
            lists[p[1]] = [int(x) for x in p[2:]]
        elif p[0] == "MEMBER":
            members[p[1]] = (int(p[2]), int(p[3]))
    L = []
    L.append("/- GENERATED by tools/translate.py (T1) from the working tree of /repo – do not edit.")
    L.append("   names: parsed from src/format_specification.h, src/dns.h;  values: printed by a C++")
    L.append("   program compiled against those headers. -/")
    L.append("namespace CdnsVerif.Generated")
    L.append("")
    for n in order:
        L.append(f"namespace {n}")
        for (i, v) in enums[n]:
            L.append(f"def {lean_ident(i)} : Int := {v}")
        L.append(f"end {n}")
    L.append("")
    L.append("/-- (enum, bytes of the underlying type, signed?, enumerators) -/")
    L.append("def enumTable : List (String × Nat × Bool × List (String × Int)) := [")
    rows = []
    for n in order:
        es = ", ".join(f'("{i}", {v})' for (i, v) in enums[n])
        sz, sg = enumtypes[n]
        rows.append(f'  ("{n}", {sz}, {"true" if sg else "false"}, [{es}])')
    L.append(",\n".join(rows))
    L.append("]")
    L.append("")
    for n, v in consts.items():
        L.append(f"def {lean_ident(n)} : Nat := {v}")
    for n, v in lists.items():
        L.append(f"def {lean_ident(n)} : List Nat := [{', '.join(map(str, v))}]")
    L.append("")
    L.append("/-- (struct.member, bytes, signed?) of the record members the schema table relies on -/")
    L.append("def memberTable : List (String × Nat × Bool) := [")
    L.append(",\n".join(f'  ("{k}", {v[0]}, {"true" if v[1] else "false"})' for k, v in members.items()))
    L.append("]")
    L.append("")
    L.append("end CdnsVerif.Generated")
    return "\n".join(L) + "\n"



# ---------------------------------------------------------------------------------------------
# T2: inventory of writable static-storage symbols and imported C functions of the library
def t2(workdir):
    srcs = sorted(glob.glob(os.path.join(REPO, "src", "*.cpp")))
    hdrs = sorted(glob.glob(os.path.join(REPO, "src", "*.h")))
    hh = hashlib.sha256(b"".join(open(h, "rb").read() for h in hdrs)).hexdigest()
    objdir = os.path.join(CACHE, "t2obj")
    os.makedirs(objdir, exist_ok=True)
    objs = []
    procs = []
    for sfile in srcs:
        key = hashlib.sha256((hh + open(sfile).read()).encode()).hexdigest()[:24]
        obj = os.path.join(objdir, key + ".o")
        objs.append(obj)
        if not os.path.exists(obj):
            procs.append((obj, subprocess.Popen(["g++", "-std=gnu++14", "-msse4", "-O0", "-g", "-I", os.path.join(REPO, "src"),
                                                 "-c", sfile, "-o", obj + ".tmp%d" % os.getpid()], stdout=subprocess.PIPE, stderr=subprocess.PIPE, text=True, errors="replace")))
    # one more object: every header of the library in one translation unit with -fkeep-inline-functions, so that function-local
    # statics of inline (header-defined) member functions are in the inventory even when no library source calls the function
    allh = os.path.join(objdir, "allhdr_" + hh[:24] + ".o")
    objs.append(allh)
    if not os.path.exists(allh):
        tu = os.path.join(objdir, "allhdr_%d.cpp" % os.getpid())
        open(tu, "w").write("".join('#include "%s"\n' % os.path.basename(h) for h in hdrs))
        procs.append((allh, subprocess.Popen(["g++", "-std=gnu++14", "-msse4", "-O0", "-g", "-fkeep-inline-functions", "-I", os.path.join(REPO, "src"),
                                              "-c", tu, "-o", allh + ".tmp%d" % os.getpid()], stdout=subprocess.PIPE, stderr=subprocess.PIPE, text=True, errors="replace")))
    for obj, pr in procs:
        out, err = pr.communicate()
        if pr.returncode != 0:
            sys.stderr.write("T2: a library source does not compile\n" + err[-2000:])
            return None
        os.replace(obj + ".tmp%d" % os.getpid(), obj)       # (several checks may run the translator at the same time)
    LIB_OBJS[:] = [o for o in objs if o != allh]
    LIB_OBJS.append(hh)
    # prune old objects
    keep = set(objs)
    for f in os.listdir(objdir):
        p = os.path.join(objdir, f)
        if p not in keep and os.path.getmtime(p) < __import__("time").time() - 3600:
            os.remove(p)
    writable = {}   # demangled name -> (class)
    imports = set()
    for obj in objs:
        tls = set()
        r = sh(["readelf", "-sW", obj])
        for line in r.stdout.splitlines():
            parts = line.split()
            if len(parts) >= 8 and parts[3] == "TLS":
                tls.add(parts[7])
        def wanted(cls, demangled):
            # data/bss symbols; and the library's own unique/weak objects (statics of inline functions and of templates)
            if cls in ("b", "B", "d", "D"):
                return True
            return cls in ("u", "V", "v") and "CDNS::" in demangled and not demangled.startswith(("typeinfo ", "vtable for", "VTT for", "guard variable", "construction vtable"))
        rm = sh(["nm", obj]).stdout.splitlines()
        rc = sh(["nm", "-C", obj]).stdout.splitlines()
        names, mang_of = [], {}
        for lm, l in zip(rm, rc) if len(rm) == len(rc) else zip(rc, rc):
            p = l.split(None, 2)
            if len(p) == 3 and wanted(p[1], p[2]):
                names.append(p[2])
                if len(rm) == len(rc):
                    mang_of[p[2]] = lm.split()[-1]
            elif len(p) == 2 and p[0] == "U" and obj != allh:      # (the all-headers unit also keeps the inline functions of libstdc++)
                imports.add(p[1])
        todo = []
        for n in names:
            if n in writable and writable[n] != "mutable":
                continue
            if n.startswith(("typeinfo for", "typeinfo name for", "vtable for", "VTT for", "guard variable for", "construction vtable")) \
               or n in ("std::__ioinit",) or n.startswith("DW.ref."):
                writable[n] = "runtime"
            elif mang_of.get(n) in tls:
                writable[n] = "threadLocal"
            else:
                todo.append(n)
        if todo:
            args = ["gdb", "-batch"]
            for n in todo:
                args += ["-ex", "echo @@%s@@\\n" % n.replace("\\", ""), "-ex", "whatis '%s'" % n]
            r = sh(args + [obj])
            cur = None
            for line in (r.stdout + r.stderr).splitlines():
                m = re.match(r"@@(.*)@@", line)
                if m:
                    cur = m.group(1); continue
                if cur and line.startswith("type = "):
                    writable[cur] = "constQualified" if line.startswith("type = const ") else "mutable"
                    cur = None
            for n in todo:
                writable.setdefault(n, "mutable")      # unknown to the debugger: treated as mutable (conservative)
    cimports = sorted(n for n in imports if "::" not in n and "(" not in n and " " not in n and not n.startswith(("_Z", "__", "_GLOBAL", "_Unwind", "DW.")))
    return writable, cimports


# ---------------------------------------------------------------------------------------------
# T3: the struct schemas (key, kind written, width kept by the reader, mandatory for the reader, order) extracted by RUNNING
# the working tree's own write()/read() functions (tools/t3_probe.cpp) - semantic, so that a refactoring leaves it unchanged
LIB_OBJS = []


def t3(workdir):
    if not LIB_OBJS:
        return None
    objs, hh = LIB_OBJS[:-1], LIB_OBJS[-1]
    probe = os.path.join(HERE, "t3_probe.cpp")
    key = hashlib.sha256((hh + "".join(sorted(os.path.basename(o) for o in objs)) + open(probe).read()).encode()).hexdigest()[:24]
    cached = os.path.join(CACHE, "t3_" + key + ".txt")
    if os.path.exists(cached):
        return open(cached).read()
    exe = os.path.join(workdir, "t3_probe")
    r = sh(["g++", "-std=gnu++14", "-msse4", "-O0", "-fno-access-control", "-I", os.path.join(REPO, "src"), probe] + objs +
           ["-lz", "-llzma", "-lpthread", "-o", exe])
    if r.returncode != 0:
        sys.stderr.write("T3: the schema probe does not compile against the working tree\n" + r.stderr[-3000:])
        return None
    r = sh(["timeout", "120", exe])
    if r.returncode != 0 or "ERROR" in r.stdout or "AMBIGUOUS" in r.stdout:
        sys.stderr.write("T3: the schema probe failed\n" + (r.stdout + r.stderr)[-3000:])
        return None
    tmp = cached + ".tmp%d" % os.getpid()
    open(tmp, "w").write(r.stdout)
    os.replace(tmp, cached)
    for f in glob.glob(os.path.join(CACHE, "t3_*.txt")):
        if f != cached and os.path.getmtime(f) < __import__("time").time() - 3600:
            os.remove(f)
    return r.stdout


def t4(workdir):
    """what the storage hints do, observed on the library itself (tools/t4_probe.cpp)"""
    if not LIB_OBJS:
        return None
    objs, hh = LIB_OBJS[:-1], LIB_OBJS[-1]
    probe = os.path.join(HERE, "t4_probe.cpp")
    key = hashlib.sha256((hh + "".join(sorted(os.path.basename(o) for o in objs)) + open(probe).read()).encode()).hexdigest()[:24]
    cached = os.path.join(CACHE, "t4_" + key + ".txt")
    if os.path.exists(cached):
        return open(cached).read()
    exe = os.path.join(workdir, "t4_probe")
    r = sh(["g++", "-std=gnu++14", "-msse4", "-O0", "-I", os.path.join(REPO, "src"), probe] + objs + ["-lz", "-llzma", "-lpthread", "-o", exe])
    if r.returncode != 0:
        sys.stderr.write("T4: the hint probe does not compile against the working tree\n" + r.stderr[-3000:])
        return None
    r = sh(["timeout", "120", exe])
    if r.returncode != 0 or "ERROR" in r.stdout:
        sys.stderr.write("T4: the hint probe failed\n" + (r.stdout + r.stderr)[-3000:])
        return None
    tmp = cached + ".tmp%d" % os.getpid()
    open(tmp, "w").write(r.stdout)
    os.replace(tmp, cached)
    for f in glob.glob(os.path.join(CACHE, "t4_*.txt")):
        if f != cached and os.path.getmtime(f) < __import__("time").time() - 3600:
            os.remove(f)
    return r.stdout


def emit_hints(text):
    L = ["/- GENERATED by tools/translate.py (T4) from the working tree of /repo - do not edit.",
         "   One query/response with every member set, one malformed message and one address event were buffered into the",
         "   library's exporter under each hint configuration and read back with the library's reader (tools/t4_probe.cpp). -/",
         "namespace CdnsVerif.Generated", "",
         "/-- (query_response_hints, query_response_signature_hints, rr_hints, other_data_hints, which members came back:",
         "    bit i (least significant first) = the i-th of: the 39 members of GenericQueryResponse in declaration order, ttl and rdata",
         "    of the first query answer, a malformed message, an address event) -/"]
    rows = []
    for line in text.splitlines():
        p = line.split()
        if p[0] == "HINT":
            bits = sum(1 << i for i, c in enumerate(p[5]) if c == "1")
            rows.append(f"  ({p[1]}, {p[2]}, {p[3]}, {p[4]}, {bits})")
    names = []
    for k in range(0, len(rows), 40):
        n = f"hintProbes{k // 40}"
        names.append(n)
        L.append(f"def {n} : List (Nat × Nat × Nat × Nat × Nat) := [")
        L.append(",\n".join(rows[k:k + 40])); L.append("]")
    L.append("def hintProbes : List (Nat × Nat × Nat × Nat × Nat) := " + " ++ ".join(names))
    L.append(""); L.append("end CdnsVerif.Generated")
    return "\n".join(L) + "\n"


def lean_sig(sg):
    m = re.fullmatch(r"u(\d+)", sg)
    if m:
        return f"(.u {m.group(1)})"
    m = re.fullmatch(r"arr\((.*)\)", sg)
    if m:
        return f"(.arr {lean_sig(m.group(1))})"
    # "uint": an unsigned item whose width the probe could not force (an index into a table): width 0 = unknown
    return {"i64": ".i64", "tstr": ".tstr", "bstr": ".bstr", "bool": ".bool", "struct": ".struct", "uint": "(.u 0)"}.get(sg, f'(.other "{sg}")')


def emit_schemas(text):
    order, wsig, member, req, rsig, rt, base = {}, {}, {}, {}, {}, {}, {}
    names = []
    for line in text.splitlines():
        p = line.split()
        if p[0] == "BASE":
            names.append(p[1]); base[p[1]] = [int(x) for x in p[2:]]
        elif p[0] == "W":
            wsig[(p[1], int(p[3]))] = p[4]; member[(p[1], int(p[3]))] = p[2]
        elif p[0] == "ORDER":
            order[p[1]] = [int(x) for x in p[2:]]
        elif p[0] == "REQ":
            req[(p[1], int(p[2]))] = p[3] != "0"
        elif p[0] == "R":
            rsig[(p[1], int(p[2]))] = p[3]
        elif p[0] == "RT":
            rt[p[1]] = p[2] == "1"
    L = ["/- GENERATED by tools/translate.py (T3) from the working tree of /repo - do not edit.",
         "   Obtained by running the library's own write()/read() functions (tools/t3_probe.cpp), not by reading source text. -/",
         "namespace CdnsVerif.Generated", "",
         "inductive KindSig where", "  | u (bits : Nat) | i64 | tstr | bstr | bool | arr (e : KindSig) | struct | other (s : String)",
         "  deriving DecidableEq, Repr", "",
         "/-- per struct, in the order the writer emits the members when all are set:",
         "    (key, kind of the item written for the member set to the all-ones value of its own type,",
         "     what the reader keeps of 2^64-1 (unsigned members), does the reader throw when the member is missing) -/",
         "def schemaTable : List (String × List (Int × KindSig × Option KindSig × Bool)) := ["]
    rows = []
    for n in names:
        rs = []
        for k in order[n]:
            r = rsig.get((n, k))
            rs.append(f"({k}, {lean_sig(wsig.get((n, k), '?'))}, {'some ' + lean_sig(r) if r else 'none'}, {'true' if req[(n, k)] else 'false'})")
        rows.append(f'  ("{n}", [' + ",\n    ".join(rs) + "])")
    L.append(",\n".join(rows)); L.append("]"); L.append("")
    L.append("/-- member names behind the keys (information for the reader of this file) -/")
    L.append("def schemaMembers : List (String × List (Int × String)) := [")
    L.append(",\n".join(f'  ("{n}", [' + ", ".join(f'({k}, "{member.get((n, k), "?")}")' for k in order[n]) + "])" for n in names))
    L.append("]"); L.append("")
    L.append("/-- keys a default-constructed struct writes (members that are always written) -/")
    L.append("def schemaAlways : List (String × List Int) := [")
    L.append(",\n".join(f'  ("{n}", [{", ".join(map(str, base[n]))}])' for n in names)); L.append("]"); L.append("")
    L.append("/-- read of the all-members encoding followed by write reproduces the bytes -/")
    L.append("def schemaRoundTrips : List (String × Bool) := [")
    L.append(",\n".join(f'  ("{n}", {"true" if rt.get(n) else "false"})' for n in names)); L.append("]"); L.append("")
    L.append("end CdnsVerif.Generated")
    return "\n".join(L) + "\n"


def emit_globals(writable, cimports):
    L = ["/- GENERATED by tools/translate.py (T2) from objects built from the working tree of /repo – do not edit.",
         "   writable static-storage symbols (nm sections b/B/d/D) with their class: constQualified (top-level const in the DWARF",
         "   type: written once by its initialiser), threadLocal, runtime (typeinfo, vtables, std::__ioinit, guards) or mutable;",
         "   imported C functions (undefined, unmangled symbols). -/",
         "namespace CdnsVerif.Generated", "",
         "def writableSymbols : List (String × String) := ["]
    L.append(",\n".join('  ("%s", "%s")' % (n.replace('"', "'").replace("\\", ""), c) for n, c in sorted(writable.items())))
    L += ["]", "", "def importedSymbols : List String := ["]
    L.append(",\n".join('  "%s"' % n for n in cimports))
    L += ["]", "", "end CdnsVerif.Generated", ""]
    return "\n".join(L)


def write_if_changed(path, content):
    try:
        if open(path).read() == content:
            return False
    except FileNotFoundError:
        pass
    tmp = path + ".tmp%d" % os.getpid()
    open(tmp, "w").write(content)
    os.replace(tmp, path)
    return True


def main():
    os.makedirs(GEN, exist_ok=True)
    os.makedirs(CACHE, exist_ok=True)
    work = tempfile.mkdtemp(prefix="t1_", dir=CACHE)
    ok = True
    try:
        text = t1(work)
        if text is None:
            ok = False
        else:
            write_if_changed(os.path.join(GEN, "Constants.lean"), emit_constants(text))
        g = t2(work)
        if g is None:
            ok = False
        else:
            write_if_changed(os.path.join(GEN, "Globals.lean"), emit_globals(*g))
        sc = t3(work) if g is not None else None
        if sc is None:
            ok = False
        else:
            write_if_changed(os.path.join(GEN, "Schemas.lean"), emit_schemas(sc))
        hp = t4(work) if g is not None else None
        if hp is None:
            ok = False
        else:
            write_if_changed(os.path.join(GEN, "Hints.lean"), emit_hints(hp))
    finally:
        shutil.rmtree(work, ignore_errors=True)
    return 0 if ok else 2


if __name__ == "__main__":
    sys.exit(main())
