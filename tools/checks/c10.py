"""C10 — reported byte counts equal the bytes actually produced.
Proof: Props/C10.lean (returns_sum over Model/Exporter; encoder_returns_lengths via C06).  Tie: for every output of
sessions with rotations and all compression modes, the sum of the values returned since it was opened equals its
uncompressed size (+1 when closed by the destructor after a block was written); the encoder-level half is checked by C06's
correspondence (every return value compared)."""
import vlib, cdnsgen as G, refexp, expcheck as E


def judge_bytes(session, r):
    line, ref, exp_results = session
    if r["results"] is None:
        return [("bytes:crash", {"implementation": (r["raw"] or "")[:300]})]
    toks = [t for t in line.split()[1:] if not t.startswith(("FP:", "BP:", "NM:", "X:", "D"))]
    # results align with the tokens that produce a result (Q A M W R AB SA C)
    got = r["results"]
    if len(toks) != len(got):
        return [("bytes:count", {"why": "results %d vs tokens %d" % (len(got), len(toks))})]
    sums, cur = [], 0
    for t, g in zip(toks, got):
        if t[0] in "QAMWR" and not t.startswith("AB"):
            if g.startswith("E:"):
                return [("bytes:exception", {"token": t[:60], "got": g})]
            cur += int(g)
            if t.startswith("R:"):
                sums.append(cur); cur = 0
    sums.append(cur)
    bad = []
    for oi, (data, err) in enumerate(r["plain"]):
        if data is None:
            bad.append(("bytes:unreadable", {"output": oi, "why": err})); continue
        last = oi == len(r["plain"]) - 1
        extra = 1 if (last and ref.outputs[oi]) else 0
        if len(data) != sums[oi] + extra:
            bad.append(("bytes:sum", {"output": oi, "uncompressed size": len(data), "sum of returned values": sums[oi],
                                      "closed by": "destructor" if last else "rotation"}))
    return bad


def check(run):
    run.lean()
    rng = run.rng
    quick = run.tier == "quick"
    run.rule = ("sessions as in C13 (rotations, name/descriptor targets, none/gzip/xz); per output: sum of returned byte counts since "
                "open == uncompressed size (+1 closing byte for the destructor); distinct by session text")
    run.trusted += ["harness/file.cpp", "python gzip/lzma", "Model/Exporter.lean sizes abstracted as hdr/bsz parameters"]
    n = 2500 if quick else 80000
    sessions = [refexp.gen_session(rng, rotations=True, late_bps=True, compress=rng.choice(["n", "g", "x"]),
                                   target=rng.choice(["fd", "nm"]), maxes=[0, 1, 2, 3, 5, 100], nops=rng.randrange(1, 40),
                                   end_flush=rng.random() < 0.7, simple_bp=rng.random() < 0.5) for _ in range(n)]
    sessions += refexp.alignment_sweep(rng, range(0, 2101, 3), rotate=True)
    res = E.run_sessions(run, sessions, need_rd=False, need_lean=False)
    seen = set()
    for s, r in zip(sessions, res):
        run.case(s[0][:300], True, key=s[0])
        run.count("compression:" + r["comp"])
        E.record_failures(run, s, judge_bytes(s, r), seen)


def replay(run, data):
    run.lean()
    for f in data.get("failures", []):
        ans = G.run_exp([f["case"]])[0]
        print(f["case"][:500]); print("  ->", (ans or "")[:1000])
    return 0
