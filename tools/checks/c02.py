"""C02 — every finished output is one well-formed, schema-valid C-DNS document.
Proof: Props/C02.lean (framing over the exporter model).  Tie / decision on the implementation: every closed output of
sessions that stress present-but-empty structures, directly built blocks, rotations and late parameter sets is parsed by the
strict Lean parser + RFC 8618 validator (Spec.Cdns.interpret); an output without blocks must be zero bytes."""
import vlib, cdnsgen as G, refexp, expcheck as E


def judge_valid(session, r, nblocks_min=None):
    line, ref, exp_results = session
    bad = []
    if r["results"] is None:
        return [("valid:crash", {"implementation": (r["raw"] or "")[:300]})]
    for oi, (data, err) in enumerate(r["plain"]):
        if data is None:
            bad.append(("valid:unreadable", {"output": oi, "why": err})); continue
        expect_blocks = nblocks_min[oi] if nblocks_min is not None else len(ref.outputs[oi])
        if expect_blocks == 0:
            if data:
                bad.append(("valid:empty-output-got-data", {"output": oi, "bytes": data[:40].hex()}))
            continue
        if not data:
            bad.append(("valid:output-empty", {"output": oi})); continue
        lg = r["lean"].get(oi)
        if lg is None:
            continue
        if lg.startswith("S invalid:"):
            bad.append(("valid:" + lg[10:40].split(":")[0].strip().replace(" ", "-"), {"output": oi, "strict parser/validator": lg[:300], "bytes": data[:200].hex()}))
        else:
            meta = dict(kv.split("=") for kv in lg.split(" #")[1].split(","))
            if int(meta["blocks"]) != expect_blocks:
                bad.append(("valid:block-count", {"output": oi, "blocks in file": meta["blocks"], "blocks written": expect_blocks}))
            if int(meta["empty"]) != 0:
                bad.append(("valid:empty-block", {"output": oi, "empty blocks": meta["empty"]}))
    return bad


def check(run):
    run.lean()
    rng = run.rng
    quick = run.tier == "quick"
    run.rule = ("sessions over the public exporter API incl. present-but-empty BlockStatistics / CollectionParameters, empty section "
                "lists, rotations, late parameter sets, and directly built blocks (write_block(block)) holding empty "
                "QueryResponseSignature / ResponseProcessingData / QueryResponseExtended / MalformedMessageData / index lists; every "
                "output validated by the strict Lean parser + RFC 8618 validator; distinct by session text")
    run.trusted += ["harness/file.cpp", "Spec/CborParse.lean, Spec/Cdns.lean (strict parser and validator; RFC transcription)", "python gzip/lzma"]
    n = 3000 if quick else 100000
    sessions, kinds = [], []
    for i in range(n):
        s = refexp.gen_session(rng, rotations=True, late_bps=True, compress=rng.choice(["n", "n", "g", "x"]),
                               target=rng.choice(["fd", "nm"]), maxes=[0, 1, 2, 3, 5], nops=rng.randrange(1, 30),
                               end_flush=rng.random() < 0.8, simple_bp=rng.random() < 0.4, stats_p=0.5)
        sessions.append(s); kinds.append(None)
    # directly built blocks
    letters = "esrxlpmnatPANTU"
    for i in range(400 if quick else 10000):
        fp = {"maj": 1, "min": 0}
        bps = [G.gen_bp(rng, simple=rng.random() < 0.5, maxb=5)]
        nb = rng.randrange(1, 4)
        specs = ["".join(rng.choice(letters) for _ in range(rng.randrange(1, 6))) for _ in range(nb)]
        line = "exp FP:maj=1,min=0 %s X:fd:n %s D" % (G.bp_token(bps[0]), " ".join("WB:0:" + sp for sp in specs))
        # items e (empty QR) and n (empty MM) are ignored; a block with no item is not written
        odh = bps[0].get("odh", 3)          # the item-level add_address_event_count honours the address-event hint
        nblocks = sum(1 for sp in specs if any(c in ("srxlpmaPANTU" if odh & 2 else "srxlpmPNTU") for c in sp))
        ref = refexp.RefExporter(fp, bps)
        sessions.append((line, ref, [])); kinds.append([nblocks])
    for s_ in refexp.alignment_sweep(rng, range(0, 2101), rotate=True):
        sessions.append(s_); kinds.append(None)
    res = E.run_sessions(run, sessions, need_rd=False, need_model=True)
    seen = set()
    for s, r, k in zip(sessions, res, kinds):
        E.judge_model(run, s, r)
        run.case(s[0][:300], True, key=s[0])
        run.count("direct-block" if k is not None else "api-session")
        E.record_failures(run, s, judge_valid(s, r, k), seen)
    E.scale_check(run, seen, "valid")


def replay(run, data):
    run.lean()
    for f in data.get("failures", []):
        ans = G.run_exp([f["case"]])[0]
        print(f["case"][:500]); print("  ->", (ans or "")[:1000])
    return 0
