"""C14 — compression is transparent: decompressing any output gives the plain output.
Proof: Props/C14.lean (for every codec satisfying the streaming contract, the writer loops deliver a stream that decodes to the
bytes written; scratch buffer bounded).  Decision on the implementation: the same write/rotate calls are made on the plain, gzip
and xz writers (name and descriptor targets); every gzip/xz output must be ONE complete stream with the right suffix whose
decompression by Python's zlib/lzma equals the plain writer's output byte for byte; chunk sizes 1 B .. tens of MiB; also
end-to-end through the exporter (C01/C13 sessions with compression)."""
import os, shutil, tempfile, zlib, lzma
import vlib, cdnsgen as G, refexp, expcheck as E


def gen_case(rng, quick):
    ops = []
    n = rng.randrange(1, 8)
    for _ in range(n):
        k = rng.random()
        if k < 0.15:
            ops.append("r")
        else:
            size = rng.choice([0, 1, 2, 100, 2047, 2048, 2049, 65536, 70000, rng.randrange(0, 5000), rng.randrange(0, 300000)])
            ops.append("c:%d:%s:%d" % (size, rng.choice("zrp"), rng.randrange(1000)))
    return ops


def decompress_file(path, comp):
    raw = open(path, "rb").read()
    if comp == "n":
        return raw, None
    if not raw:
        return None, "empty file (no stream at all)"
    try:
        if comp == "g":
            d = zlib.decompressobj(31)
            out = d.decompress(raw)
            if not d.eof: return None, "gzip stream not terminated"
            if d.unused_data: return None, "data after the end of the gzip stream"
            return out, None
        d = lzma.LZMADecompressor(format=lzma.FORMAT_XZ)
        out = d.decompress(raw)
        if not d.eof: return None, "xz stream not terminated"
        if d.unused_data: return None, "data after the end of the xz stream"
        return out, None
    except Exception as e:
        return None, "decompression failed: %s" % e


def check(run):
    run.lean()
    rng = run.rng
    quick = run.tier == "quick"
    run.rule = ("call sequences (chunks of zeros / pseudo-random / pattern bytes, sizes 0..300 KB random plus 1 MiB and 8 MiB (thorough: also 20 MiB, 64 MiB) "
                "single chunks, rotations) applied to plain, gzip and xz writers on name and descriptor targets; distinct by (ops, target); "
                "non-trivial = at least one non-empty chunk")
    run.trusted += ["harness/wr.cpp", "python zlib / lzma as independent decompressors", "zlib / liblzma satisfy the streaming contract (Codec.Sound)"]
    exe = vlib.build_harness("asan")
    tmp = tempfile.mkdtemp(prefix="c14_", dir=vlib.CACHE)
    seen = set()
    try:
        cases = [gen_case(rng, quick) for _ in range(300 if quick else 20000)]
        big = [1 << 20, 8 << 20] if quick else [1 << 20, 8 << 20, 20 << 20, 64 << 20]
        for b in big:
            for kind in "rz":
                cases.append(["c:%d:%s:7" % (b, kind)])
                cases.append(["c:5:p:1", "c:%d:%s:3" % (b, kind), "r", "c:%d:%s:4" % (b // 2, kind)])
        for tgt in ("nm", "fd"):
            lines = {}
            for comp in "ngx":
                d = os.path.join(tmp, tgt + comp); os.makedirs(d, exist_ok=True)
                lines[comp] = ["wr %s %s %s %d %s" % (d, comp, tgt, ci, " ".join(ops)) for ci, ops in enumerate(cases)]
            ans = {comp: vlib.run_lines([exe, "wr"], lines[comp], timeout=1800, jobs=8, min_chunk=8) for comp in "ngx"}
            for ci, ops in enumerate(cases):
                nontrivial = any(o.startswith("c:") and not o.startswith("c:0:") for o in ops)
                run.case((tgt, " ".join(ops)[:200]), nontrivial)
                plain = None
                for comp in "ngx":
                    a = ans[comp][ci]
                    tag = "%s/%s" % ({"n": "plain", "g": "gzip", "x": "xz"}[comp], tgt)
                    if a is None or not a.startswith("I ok"):
                        sig = "wr:error:" + tag
                        if sig not in seen:
                            seen.add(sig); run.spec_fail.append((sig, lines[comp][ci][:600], {"implementation": (a or "")[:300]}))
                        break
                    paths = a.split(" | ")[1].split()
                    outs = []
                    err = None
                    for p in paths:
                        if tgt == "nm" and comp != "n" and not p.endswith({"g": ".gz", "x": ".xz"}[comp]):
                            err = "missing suffix"
                        if not os.path.exists(p):
                            err = "output file %s missing%s" % (os.path.basename(p), " (.part left behind)" if os.path.exists(p + ".part") else "")
                            break
                        data, e = decompress_file(p, comp)
                        if data is None:
                            # an output that received no data at all may legitimately be an empty compressed stream only
                            err = e; break
                        outs.append(data)
                    if err is None and comp == "n":
                        plain = outs
                    elif err is None and plain is not None and outs != plain:
                        k = next(i for i, (x, y) in enumerate(zip(outs, plain)) if x != y) if len(outs) == len(plain) else -1
                        err = "decompressed output %d differs from the plain writer's (%s vs %s bytes)" % (k, len(outs[k]) if k >= 0 else "?", len(plain[k]) if k >= 0 else "?")
                    if err:
                        sig = "wr:%s:%s" % (err.split(" (")[0].split(" %")[0][:30].replace(" ", "-"), tag)
                        if sig not in seen:
                            seen.add(sig); run.spec_fail.append((sig, lines[comp][ci][:600], {"why": err}))
                    for p in paths:
                        for q in (p, p + ".part"):
                            if os.path.exists(q):
                                os.remove(q)
        # end-to-end through the exporter
        sessions = [refexp.gen_session(rng, rotations=True, compress=rng.choice("gx"), target=rng.choice(["fd", "nm"]),
                                       nops=rng.randrange(1, 40), maxes=[1, 3, 50]) for _ in range(300 if quick else 10000)]
        res = E.run_sessions(run, sessions, need_lean=False)
        for s, r in zip(sessions, res):
            run.case(s[0][:200], True, key=s[0])
            E.record_failures(run, s, E.judge_files(s, r, tag="e2e"), seen)
    finally:
        shutil.rmtree(tmp, ignore_errors=True)


def replay(run, data):
    run.lean()
    for f in data.get("failures", []):
        print(f["case"][:400], f["detail"])
    return 0
