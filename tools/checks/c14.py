"""C14 — compression is transparent: decompressing any output gives the plain output.
Proof: Props/C14.lean (for every codec satisfying the streaming contract, the writer loops deliver a stream that decodes to the
bytes written; scratch buffer bounded).  Decision on the implementation: the same write/rotate calls are made on the plain, gzip
and xz writers (name and descriptor targets); every gzip/xz output must be ONE complete stream with the right suffix whose
decompression by Python's zlib/lzma equals the plain writer's output byte for byte; chunk sizes 1 B .. tens of MiB; also
end-to-end through the exporter (C01/C13 sessions with compression)."""
import os, shutil, tempfile, zlib, lzma
import vlib, cdnsgen as G, refexp, expcheck as E


def gen_case(rng, quick):
    ops = []
    n = rng.randrange(1, 8)
    for _ in range(n):
        k = rng.random()
        if k < 0.15:
            ops.append("r")
        else:
            size = rng.choice([0, 1, 2, 100, 2047, 2048, 2049, 65536, 70000, rng.randrange(0, 5000), rng.randrange(0, 300000)])
            ops.append("c:%d:%s:%d" % (size, rng.choice("zrp"), rng.randrange(1000)))
    return ops


def decompress_file(path, comp):
    raw = open(path, "rb").read()
    if comp == "n":
        return raw, None
    if not raw:
        return None, "empty file (no stream at all)"
    try:
        if comp == "g":
            d = zlib.decompressobj(31)
            out = d.decompress(raw)
            if not d.eof: return None, "gzip stream not terminated"
            if d.unused_data: return None, "data after the end of the gzip stream"
            return out, None
        d = lzma.LZMADecompressor(format=lzma.FORMAT_XZ)
        out = d.decompress(raw)
        if not d.eof: return None, "xz stream not terminated"
        if d.unused_data: return None, "data after the end of the xz stream"
        return out, None
    except Exception as e:
        return None, "decompression failed: %s" % e


def small(ops):
    return sum(int(o.split(":")[1]) for o in ops if o.startswith("c:")) <= (2 << 20)


def codec_calls(run, cases, ans, tgt, seen):
    """correspondence of Model.Writer's loops (cwWriteCalls / cwFinishCalls / cwLifecycle): the model, run against a codec that
    answers what the real compressor answered, must make exactly the calls the library made to deflate / lzma_code - bytes
    offered, finish flag, output space - and hand as many bytes to the inner writer as the compressed output holds"""
    reqs, meta = [], []
    for comp in "gx":
        for ci, ops in enumerate(cases):
            a = ans[comp][ci]
            if a is None or not a.startswith("I ok") or " | K " not in a:
                continue
            klog = a.split(" | K ")[1].strip()
            per_out = klog.split("|")
            # chunk sizes per output
            outs, cur = [], []
            for o in ops:
                if o == "r":
                    outs.append(cur); cur = []
                elif o.startswith("c:"):
                    cur.append(int(o.split(":")[1]))
            outs.append(cur)
            if len(per_out) != len(outs):
                run.model_fail.append((("codec", comp, tgt, ci), {"why": "outputs %d, groups of compressor calls %d" % (len(outs), len(per_out)), "session": " ".join(ops)[:300]}))
                continue
            for oi, (sizes, log) in enumerate(zip(outs, per_out)):
                calls = [c.split(":") for c in log.strip(",").split(",") if c]
                answers = ",".join("%s:%s:%s" % (c[3], c[4], c[5]) for c in calls) or "-"
                made = ",".join("%s:%s:%s" % (c[0], c[1], c[2]) for c in calls)
                produced = sum(int(c[4]) for c in calls)
                # a zero-length write() makes no compressor call (the loop `while (avail_in > 0)` does not run): as in the model
                reqs.append("cw %s %s" % (",".join(map(str, sizes)) or "-", answers)); meta.append((comp, ci, oi, made, produced, ops))
    if not (run.driver_ok and reqs):
        return
    model = G.run_driver(reqs)
    for (comp, ci, oi, made, produced, ops), m in zip(meta, model):
        run.count("compressor-call sequences compared with the model (%s)" % {"g": "gzip", "x": "xz"}[comp])
        want = "M %s | %d" % (made, produced)
        if m != want:
            sig = "codec:calls:%s/%s" % ({"g": "gzip", "x": "xz"}[comp], tgt)
            if sig not in seen:
                seen.add(sig)
                run.model_fail.append((("codec", comp, tgt, ci, oi), {"why": "the library's calls to the compressor differ from the model's",
                                                                     "library": want[:400], "model": (m or "")[:400], "session": " ".join(ops)[:300]}))


def check(run):
    run.lean()
    rng = run.rng
    quick = run.tier == "quick"
    run.rule = ("call sequences (chunks of zeros / pseudo-random / pattern bytes, sizes 0..300 KB random plus 1 MiB and 8 MiB (thorough: also 20 MiB, 64 MiB) "
                "single chunks, rotations) applied to plain, gzip and xz writers on name and descriptor targets; distinct by (ops, target); "
                "non-trivial = at least one non-empty chunk")
    run.trusted += ["harness/wr.cpp", "python zlib / lzma as independent decompressors", "zlib / liblzma satisfy the streaming contract (Codec.Sound)"]
    exe = vlib.build_harness("asan")
    tmp = tempfile.mkdtemp(prefix="c14_", dir=vlib.CACHE)
    seen = set()
    try:
        cases = [gen_case(rng, quick) for _ in range(300 if quick else 20000)]
        big = [1 << 20, 8 << 20] if quick else [1 << 20, 8 << 20, 20 << 20, 64 << 20]
        for b in big:
            for kind in "rz":
                cases.append(["c:%d:%s:7" % (b, kind)])
                cases.append(["c:5:p:1", "c:%d:%s:3" % (b, kind), "r", "c:%d:%s:4" % (b // 2, kind)])
        for tgt in ("nm", "fd"):
            lines = {}
            for comp in "ngx":
                d = os.path.join(tmp, tgt + comp); os.makedirs(d, exist_ok=True)
                # (gzip/xz, at most 2 MiB per session: also log every call made to the compressor, for the model's write/finish loops)
                lines[comp] = ["wr %s %s %s %d %s" % (d, comp, tgt, ci, " ".join((["k"] if comp != "n" and small(ops) else []) + ops)) for ci, ops in enumerate(cases)]
            ans = {comp: vlib.run_lines([exe, "wr"], lines[comp], timeout=1800, jobs=8, min_chunk=8) for comp in "ngx"}
            codec_calls(run, cases, ans, tgt, seen)
            for ci, ops in enumerate(cases):
                nontrivial = any(o.startswith("c:") and not o.startswith("c:0:") for o in ops)
                run.case((tgt, " ".join(ops)[:200]), nontrivial)
                plain = None
                for comp in "ngx":
                    a = ans[comp][ci]
                    tag = "%s/%s" % ({"n": "plain", "g": "gzip", "x": "xz"}[comp], tgt)
                    if a is None or not a.startswith("I ok"):
                        sig = "wr:error:" + tag
                        if sig not in seen:
                            seen.add(sig); run.spec_fail.append((sig, lines[comp][ci][:600], {"implementation": (a or "")[:300]}))
                        break
                    paths = a.split(" | ")[1].split()
                    outs = []
                    err = None
                    for p in paths:
                        if tgt == "nm" and comp != "n" and not p.endswith({"g": ".gz", "x": ".xz"}[comp]):
                            err = "missing suffix"
                        if not os.path.exists(p):
                            err = "output file %s missing%s" % (os.path.basename(p), " (.part left behind)" if os.path.exists(p + ".part") else "")
                            break
                        data, e = decompress_file(p, comp)
                        if data is None:
                            # an output that received no data at all may legitimately be an empty compressed stream only
                            err = e; break
                        outs.append(data)
                    if err is None and comp == "n":
                        plain = outs
                    elif err is None and plain is not None and outs != plain:
                        k = next(i for i, (x, y) in enumerate(zip(outs, plain)) if x != y) if len(outs) == len(plain) else -1
                        err = "decompressed output %d differs from the plain writer's (%s vs %s bytes)" % (k, len(outs[k]) if k >= 0 else "?", len(plain[k]) if k >= 0 else "?")
                    if err:
                        sig = "wr:%s:%s" % (err.split(" (")[0].split(" %")[0][:30].replace(" ", "-"), tag)
                        if sig not in seen:
                            seen.add(sig); run.spec_fail.append((sig, lines[comp][ci][:600], {"why": err}))
                    for p in paths:
                        for q in (p, p + ".part"):
                            if os.path.exists(q):
                                os.remove(q)
        # end-to-end through the exporter
        sessions = [refexp.gen_session(rng, rotations=True, compress=rng.choice("gx"), target=rng.choice(["fd", "nm"]),
                                       nops=rng.randrange(1, 40), maxes=[1, 3, 50]) for _ in range(300 if quick else 10000)]
        res = E.run_sessions(run, sessions, need_lean=False)
        for s, r in zip(sessions, res):
            run.case(s[0][:200], True, key=s[0])
            E.record_failures(run, s, E.judge_files(s, r, tag="e2e"), seen)
    finally:
        shutil.rmtree(tmp, ignore_errors=True)


def replay(run, data):
    run.lean()
    for f in data.get("failures", []):
        print(f["case"][:400], f["detail"])
    return 0
