"""C17 — timestamp offsets exact, invertible, never negative within a block.
Proof: Props/C17.lean.  Tie: real Timestamp / CdnsBlock vs Lean model (M) and integer spec (S)."""
import vlib
from checks.common import pair

I64MIN, I64MAX = -2**63, 2**63 - 1


def gen(run):
    rng = run.rng
    quick = run.tier == "quick"
    L = []
    rates = [0, 1, 2, 3, 10, 1000, 10**6, 10**9]
    # grid (exhaustive over a small set)
    small_s = [0, 1, 2, 5]
    for r in [1, 2, 3, 10]:
        for as_ in small_s:
            for at in range(0, min(r, 4)):
                for bs in small_s:
                    for bt in range(0, min(r, 4)):
                        L.append("ts off %d %d %d %d %d" % (as_, at, bs, bt, r))
                        L.append("ts cmp %d %d %d %d %d" % (as_, at, bs, bt, r))
                        L.append("ts add %d %d %d %d" % (bs, bt, (as_ * r + at) - (bs * r + bt), r))
    run.count("grid", len(L))
    # boundaries
    n0 = len(L)
    for r in rates:
        maxs = (2**63 - 1) // r if r else 2**40
        for s in [0, 1, 2**31 - 1, 2**31, 2**32 - 1, 2**32, maxs, max(0, maxs - 1), 1636068056]:
            for t in ([0, 1, r - 1] if r > 1 else [0]):
                if r and s * r + t >= 2**63:
                    continue
                for s2 in [0, 1, 2**31, maxs, 1636070675]:
                    t2 = 0 if r <= 1 else min(r - 1, 31614)
                    if r and s2 * r + t2 >= 2**63:
                        continue
                    L.append("ts off %d %d %d %d %d" % (s, t, s2, t2, r))
                    L.append("ts cmp %d %d %d %d %d" % (s, t, s2, t2, max(r, 1)))
                    if r:
                        L.append("ts add %d %d %d %d" % (s2, t2, (s * r + t) - (s2 * r + t2), r))
                offs = [I64MIN, I64MIN + 1, I64MAX, -1, 0, 1] + [2**k for k in range(0, 63, 3)] + [-(2**k) for k in range(0, 64, 3)] \
                    + [2**k - 1 for k in (8, 16, 32, 62, 63)] + [-(2**k) + 1 for k in (8, 16, 32, 63)] + [-(s * r + t), -(s * r + t) - 1, -(s * r + t) + 1]
                for o in offs:
                    if I64MIN <= o <= I64MAX:
                        L.append("ts add %d %d %d %d" % (s, t, o, r))
    # timestamps that are not normalised (ticks >= rate; the instant secs*rate + ticks still below 2^63): accepted offsets give the
    # normalised sum, refused ones leave BOTH members as they were
    for r in [1, 3, 1000, 10**6, 10**9]:
        for s in [0, 5, 2**31]:
            for t in [r, r + 1, 2 * r + 1, 10 * r + r // 2, 2500 * r]:
                if s * r + t >= 2**63:
                    continue
                inst = s * r + t
                for o in [I64MIN, I64MIN + 1, -inst - 1, -inst, -inst + 1, -1, 0, 1, r, I64MAX - inst, I64MAX - inst + 1, I64MAX]:
                    if I64MIN <= o <= I64MAX:
                        L.append("ts add %d %d %d %d" % (s, t, o, r))
                L.append("ts add %d %d %d %d" % (s, t, 1, 0))
                L.append("ts off %d %d %d %d %d" % (s, t, 0, 0, r))
    run.count("boundaries", len(L) - n0)
    # random
    n0 = len(L)
    for _ in range(20000 if quick else 400000):
        r = rng.choice([1, 1000, 10**6, 10**9, rng.randrange(1, 10**9 + 1)])
        def rt():
            inst = rng.choice([rng.randrange(2**63), rng.randrange(2**40), rng.randrange(10**6)])
            return inst // r, inst % r
        a, b = rt(), rt()
        if rng.random() < 0.2 and b[0] > 0:        # the same instant, not normalised
            d = rng.randrange(1, min(b[0], 4000) + 1)
            b = (b[0] - d, b[1] + d * r)
        k = rng.randrange(4)
        if k == 0:
            L.append("ts off %d %d %d %d %d" % (a + b + (r,)))
        elif k == 1:
            L.append("ts cmp %d %d %d %d %d" % (a + b + (r,)))
        elif k == 2:
            L.append("ts add %d %d %d %d" % (b + ((a[0] * r + a[1]) - (b[0] * r + b[1]), r)))
        else:
            L.append("ts add %d %d %d %d" % (b + (rng.choice([rng.randrange(I64MIN, I64MAX + 1), rng.randrange(-10**7, 10**7)]), r)))
    run.count("random arithmetic", len(L) - n0)
    # block histories: arrival orders of timed / untimed records
    n0 = len(L)
    for _ in range(6000 if quick else 120000):
        r = rng.choice([1, 1000, 10**6, 10**9])
        th, me = rng.randrange(2), rng.choice([1, 1, 0])
        base = rng.choice([0, 5, 1636068056])
        ops = []
        for _ in range(rng.randrange(1, 9)):
            k = rng.randrange(10)
            ts = "-" if rng.random() < 0.25 else "%d.%d" % (base + rng.randrange(0, 4), rng.randrange(0, min(r, 3)))
            item = rng.random() < 0.3          # directly built item (non-generic add_* overload)
            if k < 5:
                ops.append("%s:%s:%d:%d" % ("Q" if item else "q", ts, th, rng.randrange(2)))
            elif k < 9:
                ops.append("%s:%s:%d:%d" % ("M" if item else "m", ts, me, rng.randrange(2)))
            else:
                ops.append("c")
            if rng.random() < 0.12:
                ops.append(rng.choice("Kk"))          # carry on with a copy of the block
        L.append("ts blk %d %s" % (r, " ".join(ops)))
    run.count("block histories", len(L) - n0)
    return L


def check(run):
    run.lean()
    run.rule = ("requests to the real Timestamp::get_time_offset/add_time_offset/operator< and to CdnsBlock (arrival orders of "
                "timed/untimed records, block written and read back); exhaustive small grid, width/epoch boundaries, all "
                "power-of-two offsets incl. INT64_MIN/MAX, random; distinct by request text; non-trivial = request reaches the arithmetic (rate != 0 or block op)")
    run.trusted += ["translator T1", "harness/ts.cpp, Driver/Ts.lean", "UBSan (-fsanitize=undefined, no recover) reports undefined arithmetic as a crash"]
    run.assumptions += ["uint64_t->int64_t conversion is two's complement (g++ on x86-64)"]
    L = gen(run)
    impl, model = pair(run, "ts", L)
    seen = set()
    for l, i, m in zip(L, impl, model):
        kind = l.split()[1]
        run.case(l, nontrivial=not l.endswith(" 0"))
        if i is None or not i.startswith("I "):
            sig = "ts:%s:crash" % kind
            if sig not in seen:
                seen.add(sig); run.spec_fail.append((sig, l, {"implementation": i}))
            continue
        if m is None:
            continue
        mm, ss = m.split("\t")
        iv, mv, sv = i[2:], mm[2:], ss[2:]
        if kind == "blk":
            p = iv.split("|")
            stored = "|".join(p[:3])
            ok_spec = True
            why = ""
            # spec 1: earliest not later than any stored time (evaluated on the IMPLEMENTATION's state)
            def key(x):
                a, b = x.split("."); return (int(a), int(b))
            e = key(p[0])
            times = [key(x) for x in (p[1].split(",") + p[2].split(",")) if x and x != "-"]
            if any(t < e for t in times):
                ok_spec, why = False, "a stored record time is earlier than the block's earliest time"
            # spec 2: times are recovered exactly by write -> read
            if len(p) < 5 or p[3] != p[1] or p[4] != p[2]:
                ok_spec, why = False, "record times read back differ from the stored ones"
            if not ok_spec:
                sig = "ts:blk"
                if sig not in seen:
                    seen.add(sig); run.spec_fail.append((sig, l, {"implementation": iv, "why": why}))
            elif stored != mv:
                run.model_fail.append((l, {"implementation": stored, "model": mv}))
        else:
            if sv != "na" and iv != sv:
                sig = "ts:%s" % kind
                if sig not in seen:
                    seen.add(sig); run.spec_fail.append((sig, l, {"implementation": iv, "spec": sv}))
            elif iv != mv:
                run.model_fail.append((l, {"implementation": iv, "model": mv}))
    run.model_fail = run.model_fail[:20]


def replay(run, data):
    run.lean()
    cases = [f["case"] for f in data.get("failures", [])] + [c["case"] for c in data.get("correspondence_breaks", [])]
    impl, model = pair(run, "ts", cases)
    for l, i, m in zip(cases, impl, model):
        print(l); print("  impl :", i); print("  model:", m)
    return 0
