"""C01 — export -> file -> read returns exactly the records that were buffered.
Three-way comparison per output: library reader dump, independent RFC 8618 reader (Lean Spec.Cdns.interpret), and the
reference expectation (records buffered, projected by the RFC's hint semantics, grouped by the flush rule)."""
import vlib, cdnsgen as G, refexp, expcheck as E


def check(run):
    run.lean()
    rng = run.rng
    quick = run.tier == "quick"
    run.rule = ("exporter sessions: 1-3 block-parameter sets with random/single-bit hint masks, ticks_per_second in {1,1e3,1e6,1e9,random}, "
                "max_block_items in {0,1,2,3,5,100}, 1-24 ops over buffer_qr/aec/mm (all optional-field subsets, boundary integers, "
                "repeated table values, RR lists, statistics), write_block, set_active, counters, all compression modes; every output read by "
                "the library reader and by the independent Lean RFC 8618 reader and compared with the reference expectation; distinct by session text")
    run.trusted += ["translator T1 + keys_match_rfc (code keys/bits = RFC 8618 transcription)", "harness/file.cpp, records.h",
                    "tools/refexp.py reference exporter (spec oracle), tools/cdnsgen.py projection (RFC hint semantics)",
                    "Spec/CborParse.lean + Spec/Cdns.lean (independent reader; RFC transcription from memory)",
                    "python gzip/lzma as independent decompressors"]
    n = 1500 if quick else 60000
    sessions = []
    for i in range(n):
        sessions.append(refexp.gen_session(rng, compress=rng.choice(["n", "n", "n", "g", "x"]), target=rng.choice(["fd", "fd", "nm"]),
                                           maxes=rng.choice([None, [0, 1, 2, 3], [2, 3, 5]])))
    for m in (2**32, 2**40, 2**63, 2**64 - 1):           # "no limit, I write the blocks myself": max_block_items at the top of its range
        for _ in range(2 if quick else 20):
            sessions.append(refexp.gen_session(rng, maxes=[m, 3], nbps=rng.choice([1, 2])))
    for i in range(6 if quick else 100):     # outputs > 64 KiB, blocks > 2 KiB
        sessions.append(refexp.gen_session(rng, nops=rng.choice([300, 800]), maxes=[100, 5, 1000], stats_p=0.1))
    # every alignment of later writes relative to the encoder's 2 KiB staging buffer
    sessions += refexp.alignment_sweep(rng, range(0, 2101))
    res = E.run_sessions(run, sessions, need_model=True)
    E.judge_builder(run, sessions, res)          # single-block sessions: the block-building model builds the same bytes
    E.judge_projection(run, sessions, res)       # one parameter set: reader's records = Lean projection of the records buffered
    seen = set()
    for s, r in zip(sessions, res):
        E.judge_model(run, s, r)
        run.case(s[0] if len(s[0]) < 300 else s[0][:150] + "…" + s[0][-100:], True, key=s[0])
        run.count("ops:%d-%d" % (len(s[2]) // 5 * 5, len(s[2]) // 5 * 5 + 4))
        run.count("compression:" + r["comp"])
        E.record_failures(run, s, E.judge_files(s, r), seen)
    E.scale_check(run, seen, "exp")
    # the reading loops an application may write: one block object re-used for every block of the file, either by reading into it
    # again (CdnsBlockRead::read on a used object) or by assigning each returned block to it - same records as with fresh objects
    lines, want = [], []
    for s, r in zip(sessions, res):
        if r["results"] is None:
            continue
        for oi, (data, err) in enumerate(r["plain"]):
            d = r["rd"].get(oi, "")
            if data and d.endswith(" EOF") and d.count(" B{") >= 2 and len(lines) < (600 if quick else 20000):
                for kind in ("R", "A"):
                    lines.append("rd %s %s" % (kind, data.hex())); want.append((d, s))
    for l, (d, s), a in zip(lines, want, G.run_rd(lines)):
        run.case(("reuse", l[:200]), True, key=l); run.count("files read through one re-used block object")
        if a != d:
            sig = "exp:reused-block-object:" + l.split()[1]
            if sig not in seen:
                seen.add(sig)
                run.spec_fail.append((sig, l[:8000], {"how": "R = CdnsBlockRead::read into the same object, A = block = reader.read_block(eof)",
                                                     "with fresh objects": d[:1500], "with one re-used object": (a or "")[:1500]}))


def replay(run, data):
    run.lean()
    for f in data.get("failures", []):
        ans = G.run_exp([f["case"]])[0]
        print(f["case"][:500]); print("  ->", (ans or "")[:1000])
    return 0
