"""C16 — output failures are reported, never swallowed, and rotation recovers from them.
Decision on the implementation: for scripted scenarios (name/descriptor x none/gzip/xz) every fault point k (the k-th
write/writev to the FIRST output fails with ENOSPC / EIO or is cut short; single fault and persistent from k on) is
injected through the interposed system calls; oracle: if the first output lost bytes, an API call threw no later than the
rotate_output that closes it; a write_block() that threw left its records buffered; a rotate_output to a healthy
destination after a reported failure returns normally; the output between the two rotations stays empty; the following write_block() yields a complete valid file holding
the records that were still buffered.  Proof: Props/C16.lean (writer/fault model)."""
import vlib, cdnsgen as G, expcheck as E

SCRIPT = ("BP:tps=1000,max=1000 X:{t}:{c} {q1} {q2} C W C {q3} {q4} C W C R:{t}:0 C R:{t}:0 C W C D")


def mk_script(tgt, comp, big, asnlen=None):
    pad = "x" + "41" * (3000 if big else 10)
    def q(i):
        return "Q:cport=%d,qn=%s" % (i, pad)
    q4 = q(4) if asnlen is None else "Q:cport=4,asn=x" + "42" * asnlen
    return SCRIPT.format(t=tgt, c=comp, q1=q(1), q2=q(2), q3=q(3), q4=q4)


def aligned_scenarios(quick):
    """scenarios in which the second block ends exactly at the end of the encoder's staging buffer, so that the closing break of
    the next rotate_output has to flush first (found by sweeping the length of the record's last string member and looking at
    the sizes of the write calls of the fault-free run)"""
    out = []
    for tgt in ("fd", "nm"):
        for big in ((False,) if quick else (False, True)):
            lens = list(range(0, 2060))
            ans = run_os(["os full " + mk_script(tgt, "n", big, L) for L in lens])
            hits = []
            for L, a in zip(lens, ans):
                if a and " | T " in a:
                    sizes = [e.split(":")[-1] for e in a.split(" | T ")[1].split(" | ")[0].split(",") if e.startswith("w:") and ("_o0" in e or "out0_" in e)]
                    if len(sizes) >= 2 and sizes[-1] == "1":
                        hits.append(L)
            for L in hits[:2]:
                out.append((tgt, "n", big, L))
    return out


def run_os(lines):
    exe = vlib.build_harness("asan")
    return vlib.run_lines([exe, "os"], lines, timeout=900, min_chunk=4)


def parse(ans):
    """-> (api results, outputs, N, fired, files dict)"""
    if ans is None or not ans.startswith("I"):
        return None
    parts = ans.split(" | ")
    api = parts[0].split()[1:]
    outs = parts[1].split() if len(parts) > 1 else []
    meta = dict(kv.split("=") for kv in parts[2].split()) if len(parts) > 2 else {}
    return api, outs, int(meta.get("N", 0)), int(meta.get("fired", 0))


SCRIPT_B = ("BP:tps=1000,max=1000 X:{t}:{c} {q1} {q2} C W C R:{t}:0 C {q3} W C R:{t}:0 C W C D")


def written_between_rotations(run, seen, quick):
    """a block written to the output that the (possibly throwing) first rotation opened: if write_block() returned normally and the
    rotation that closes that output returns normally too, the output holds that block - complete and valid; it never loses bytes
    silently because of a failure that belonged to the PREVIOUS output"""
    scen = [(t, c, big) for t in ("nm", "fd") for c in ("n", "g", "x") for big in (False, True)]
    def script(t, c, big):
        pad = "x" + "41" * (3000 if big else 10)
        q = lambda i: "Q:cport=%d,qn=%s" % (i, pad)
        return SCRIPT_B.format(t=t, c=c, q1=q(1), q2=q(2), q3=q(3))
    base = run_os(["os full " + script(*sc) for sc in scen])
    lines, metas = [], []
    for sc, b in zip(scen, base):
        pb = parse(b)
        if pb is None:
            continue
        for k in range(1, pb[2] + 1):
            for kind in ("enospc", "short"):
                for persist in (0, 1):
                    lines.append("os fault %d %s %d %s" % (k, kind, persist, script(*sc))); metas.append((sc, k, kind, persist))
    answers = run_os(lines)
    lean_lines, idx, parsed = [], [], []
    for (sc, k, kind, persist), a in zip(metas, answers):
        p = parse(a); parsed.append(p)
        if p and len(p[1]) >= 2 and p[1][1] not in ("-", "MISSING", "NONE") and not p[1][1].startswith("PART:"):
            data, err = E.decompress(p[1][1], sc[1])
            if data:
                lean_lines.append("cdns " + data.hex()); idx.append(len(parsed) - 1)
    lean_of = dict(zip(idx, G.run_driver(lean_lines))) if run.driver_ok and lean_lines else {}
    for j, ((sc, k, kind, persist), p, line) in enumerate(zip(metas, parsed, lines)):
        tag = "%s/%s" % (sc[0], {"n": "plain", "g": "gzip", "x": "xz"}[sc[1]])
        if p is None or p[3] == 0:
            continue
        run.case(("between", tag, k, kind, persist), True); run.count("block written between two rotations")
        api, outs = p[0], p[1]
        # Q Q C W C R1 C Q W C R2 C W C   (14 results): the block written in between = api[8], the rotation closing its output = api[10]
        if len(api) != 14:
            continue
        w_mid, r2 = api[8], api[10]
        if w_mid.startswith("E:") or r2.startswith("E:") or w_mid == "0":
            continue                   # reported (the record is still buffered / the loss is known to the caller)
        # did the first rotation switch outputs at all?  If it threw before switching, the block went to the OLD output, whose
        # failure has been reported (its data is dropped until the next rotation - by design, and within the letter of C16).
        # Only a named output tells: its file exists iff it was opened.
        if sc[0] != "nm" or len(outs) < 2 or outs[1] == "MISSING":
            continue
        run.count("block written to the output a throwing rotation had opened")
        lg = lean_of.get(j)
        # (records of a block whose write was refused earlier stay buffered and may be written with it: the output must be valid
        #  and hold the record buffered between the two rotations, cport=3)
        ok = lg is not None and not lg.startswith("S invalid") and ("cport=3," in lg or "cport=3}" in lg)
        if not ok:
            sig = "fault:silent-loss-in-next-output:" + tag
            if sig not in seen:
                seen.add(sig)
                run.spec_fail.append((sig, line, {"why": "write_block() returned %s and the rotation closing that output returned %s, yet the output does not hold the block" % (w_mid, r2),
                                                  "the output (compressed form)": (outs[1] if len(outs) > 1 else "")[:200], "validator": (lg or "")[:200],
                                                  "api results": " ".join(api), "k": k, "kind": kind, "persistent": persist}))


def auto_flush_failure(run, seen, quick):
    """the write that fails is the one buffer_qr() starts itself when the block reaches max_block_items (blocks larger than the
    encoder's staging buffer, so the OS is written to during that call): buffer_qr() throws, and - like for an explicit
    write_block() - the records of the failed block, the one just handed over included, are still buffered: the recovery
    (rotate_output to a healthy destination, write_block) produces a complete valid file holding all of them"""
    q = lambda i: "Q:cport=%d,qn=x%s" % (i, ("%02x" % (0x40 + i)) * 1500)       # (different names: equal ones would share one table entry)
    scen = [(t, c) for t in ("nm", "fd") for c in ("n", "g", "x")]
    def script(t, c):
        return "BP:tps=1000,max=3 X:%s:%s %s %s %s C R:%s:0 C W C R:%s:0 C D" % (t, c, q(1), q(2), q(3), t, t)
    base = run_os(["os full " + script(*sc) for sc in scen])
    lines, metas = [], []
    for sc, b in zip(scen, base):
        pb = parse(b)
        if pb is None:
            continue
        for k in range(1, pb[2] + 1):
            for kind in ("enospc", "short"):
                for persist in (0, 1):
                    lines.append("os fault %d %s %d %s" % (k, kind, persist, script(*sc))); metas.append((sc, k, kind, persist))
    answers = run_os(lines)
    parsed = [parse(a) for a in answers]
    lean_lines, idx = [], []
    for j, (m, p) in enumerate(zip(metas, parsed)):
        if p and len(p[1]) >= 2 and p[1][1] not in ("-", "MISSING", "NONE") and not p[1][1].startswith("PART:"):
            data, err = E.decompress(p[1][1], m[0][1])
            if data:
                lean_lines.append("cdns " + data.hex()); idx.append(j)
    lean_of = dict(zip(idx, G.run_driver(lean_lines))) if run.driver_ok and lean_lines else {}
    for j, ((sc, k, kind, persist), p, line) in enumerate(zip(metas, parsed, lines)):
        tag = "%s/%s" % (sc[0], {"n": "plain", "g": "gzip", "x": "xz"}[sc[1]])
        if p is None or p[3] == 0:
            continue
        run.case(("auto-flush", tag, k, kind, persist), True); run.count("fault during the flush buffer_qr() starts itself")
        api = p[0]
        # Q Q Q C R C W C R C   (10 results)
        if len(api) != 10 or not api[2].startswith("E:"):
            continue                       # the fault did not hit the automatic flush
        run.count("buffer_qr() threw: recovery must hold the records of the failed block")
        if api[4].startswith("E:") or api[6].startswith("E:"):
            continue                       # (covered by the rotation clauses of the main scenarios)
        lg = lean_of.get(j)
        ok = lg is not None and not lg.startswith("S invalid") and all(("cport=%d," % i) in lg or ("cport=%d}" % i) in lg for i in (1, 2, 3))
        if not ok:
            sig = "fault:auto-flush-records-lost:" + tag
            if sig not in seen:
                seen.add(sig)
                run.spec_fail.append((sig, line, {"why": "buffer_qr() threw while flushing the full block; after rotate_output + write_block the recovery output "
                                                         "does not hold the three records of the failed block", "api results": " ".join(api),
                                                  "recovery output": (lg or (p[1][1] if len(p[1]) > 1 else ""))[:300], "k": k, "kind": kind, "persistent": persist}))


def same_name_recovery(run, seen, quick):
    """the natural retry: after the failure of a named output was reported, the application rotates to the SAME name and writes
    the block again - the file that finally carries the name must be exactly the complete new output (nothing of the failed
    attempt's temporary file in front of it or behind it)"""
    import random as _r
    noise = _r.Random(16)
    blob = {i: bytes(noise.randrange(256) for _ in range(40000)).hex() for i in (1, 2)}       # (does not compress: the compressors hand data down early)
    q = lambda i, n: "Q:cport=%d,qn=x%s" % (i, blob[i][:2 * n])
    scen = [(c, n) for c in ("n", "g", "x") for n in ((3000, 20000) if quick else (10, 3000, 9000, 20000, 40000))]
    def script(c, n):
        return "BP:tps=1000,max=1000 X:nm:%s %s %s C W C R:same:0 C W C R:nm:0 C D" % (c, q(1, n), q(2, n))
    base = run_os(["os full " + script(*sc) for sc in scen])
    lines, metas = [], []
    for sc, b in zip(scen, base):
        pb = parse(b)
        if pb is None:
            continue
        for k in range(1, pb[2] + 1):
            for kind in ("enospc", "short"):
                lines.append("os fault %d %s 0 %s" % (k, kind, script(*sc))); metas.append((sc, k, kind))
    answers = run_os(lines)
    parsed = [parse(a) for a in answers]
    lean_lines, idx = [], []
    for j, (m, p) in enumerate(zip(metas, parsed)):
        # outputs: [first attempt (snapshot at the rotation), the retry under the same name, the output after it]
        if p and len(p[1]) >= 2 and p[1][1] not in ("-", "MISSING", "NONE") and not p[1][1].startswith("PART:"):
            data, err = E.decompress(p[1][1], m[0][0])
            lean_lines.append("cdns " + (data.hex() if data else "00")); idx.append(j)
    lean_of = dict(zip(idx, G.run_driver(lean_lines))) if run.driver_ok and lean_lines else {}
    for j, ((sc, k, kind), p, line) in enumerate(zip(metas, parsed, lines)):
        tag = "nm/%s" % {"n": "plain", "g": "gzip", "x": "xz"}[sc[0]]
        if p is None or p[3] == 0:
            continue
        run.case(("same-name", tag, k, kind), True); run.count("recovery by rotating to the same name")
        api = p[0]
        # Q Q C W C R C W C R C   (11 results): W = api[3], retry rotation = api[5], retry W = api[7], closing rotation = api[9]
        if len(api) != 11:
            continue
        failed_first = api[3].startswith("E:") or api[5].startswith("E:")
        if not failed_first or api[7].startswith("E:") or api[7] == "0" or api[9].startswith("E:"):
            continue
        if api[5].startswith("E:"):
            continue          # the rotation itself reported the failure: whether it had switched already is the main scenarios' subject
        run.count("retry under the same name returned normally: the named file must be the complete retry")
        lg = lean_of.get(j)
        ok = lg is not None and not lg.startswith("S invalid") and all(("cport=%d," % i) in lg or ("cport=%d}" % i) in lg for i in (1, 2))
        if not ok:
            sig = "fault:same-name-retry-corrupt:" + tag
            if sig not in seen:
                seen.add(sig)
                run.spec_fail.append((sig, line, {"why": "write_block() failed, rotate_output(same name, false) and the second write_block() and the closing "
                                                         "rotation returned normally, yet the file carrying the name is not the complete valid retry",
                                                  "api results": " ".join(api), "validator": (lg or "")[:300], "k": k, "kind": kind}))


def refused_destination(run, seen):
    """the failure is a destination that cannot be opened (invalid descriptor / missing directory): rotate_output throws; whatever
    is attempted meanwhile, a later rotation to a healthy destination succeeds and the next block write produces a complete valid
    file with the records that are still buffered"""
    lines, metas = [], []
    for tgt in ("fd", "nm"):
        for comp in ("n", "g", "x"):
            for ex in (0, 1):
                for mid in ("", "W C", "{q3} W C {q4}", "R:bad:0 C W C"):
                    pad = "x" + "41" * 300
                    q = lambda i: "Q:cport=%d,qn=%s" % (i, pad)
                    mids = mid.format(q3=q(3), q4=q(4))
                    script = "BP:tps=1000,max=1000 X:%s:%s %s %s C W C %s R:bad:%d C %s C R:%s:0 C R:%s:0 C W C D" % (tgt, comp, q(1), q(2), q(5), ex, mids, tgt, tgt)
                    lines.append("os full " + " ".join(script.split())); metas.append((tgt, comp, ex, mid))
    answers = run_os(lines)
    lean_lines, idx = [], []
    parsed = []
    for (tgt, comp, ex, mid), a in zip(metas, answers):
        p = parse(a); parsed.append(p)
        if p and p[1] and p[1][-1] not in ("-", "MISSING", "NONE") and not p[1][-1].startswith("PART:"):
            data, err = E.decompress(p[1][-1], comp)
            if data:
                lean_lines.append("cdns " + data.hex()); idx.append(len(parsed) - 1)
    lean_of = dict(zip(idx, G.run_driver(lean_lines))) if run.driver_ok and lean_lines else {}
    for k, ((tgt, comp, ex, mid), p, line) in enumerate(zip(metas, parsed, lines)):
        tag = "%s/%s" % (tgt, {"n": "plain", "g": "gzip", "x": "xz"}[comp])
        run.case(("refused-destination", tgt, comp, ex, mid), True); run.count("refused destination")
        if p is None:
            bad = ("crash", (answers[k] or "")[:300])
        else:
            api = p[0]
            bad = None
            # ... R:bad:<ex> C <mid> C R:<tgt>:0 C R:<tgt>:0 C W C   -> the last six results: healthy rotation 1, counters, healthy
            # rotation 2, counters, W, counters.  What was written between the refused rotation and the first healthy one went to an
            # output that does not exist: its loss may be reported by the first healthy rotation (which then throws), never later.
            r_bad = api[6]
            if not r_bad.startswith("E:"):
                bad = ("refused-rotation-returned", "rotate_output to a destination that cannot be opened returned %s" % r_bad)
            healthy1, healthy, cnt_before, w_last = api[-6], api[-4], api[-3], api[-2]
            if bad is None and healthy1.startswith("E:") and "W" not in mid.split():
                bad = ("recovery-rotate-throws", "nothing was written after the refused rotation, yet rotate_output to a healthy destination threw")
            if bad is None and healthy.startswith("E:"):
                bad = ("second-recovery-rotate-throws", "the second rotate_output to a healthy destination threw")
            nqr = int(cnt_before.split("=")[1].split(".")[1]) if cnt_before.startswith("c=") else -1
            if bad is None and w_last.startswith("E:"):
                bad = ("recovery-write-throws", "write_block() on the healthy output threw")
            if bad is None and nqr > 0:
                lg = lean_of.get(k)
                if lg is None or lg.startswith("S invalid") or lg.count("Q{") != nqr:
                    bad = ("recovery-file", "the healthy output is not a complete valid file with the %d records that were buffered: %s" % (nqr, (lg or p[1][-1])[:200]))
        if bad:
            sig = "refused:%s:%s" % (bad[0], tag)
            if sig not in seen:
                seen.add(sig)
                run.spec_fail.append((sig, line, {"why": bad[1], "api results": " ".join(p[0]) if p else None}))


def stack_lines(script_tokens, answer):
    """an `os stk` answer -> (driver request for Model.Stack, what the implementation showed, outputs) or None
    implementation side: per API call 't<threw>' and, where a counter query follows, the records buffered / blocks written"""
    if answer is None or not answer.startswith("I") or " | S " not in answer:
        return None
    head, _, strace = answer.partition(" | S ")
    parts = head.split(" | ")
    api = parts[0].split()[1:]
    outs = parts[1].split() if len(parts) > 1 else []
    # group the data calls and the runner's notes by API call
    groups, cur, hlen = [], None, 0
    for e in strace.strip().strip(",").split(","):
        if not e:
            continue
        if e.startswith("=H"):
            hlen = int(e[2:])
        elif e.startswith("@"):
            cur = {"op": e[1:], "writes": [], "len": None}; groups.append(cur)
        elif cur is not None and e.startswith("=L"):
            cur["len"] = int(e[2:])
        elif cur is not None:
            cur["writes"].append(e.partition(":")[0][1:])          # '<size><o|f|s>'
    toks = [t for t in script_tokens if t.split(":")[0] in ("Q", "A", "M", "W", "R", "C", "D")]
    if len([t for t in toks if t.split(":")[0] != "D"]) != len(api):
        return None
    ops, impl, gi, ri, pending = ["H%d" % hlen], [], 0, 0, None
    opened, target = [0], 0          # a rotation that throws never opens its target (descriptor outputs): the harness still lists it
    for t in toks:
        op = t.split(":")[0]
        if op == "D":
            break
        r = api[ri]; ri += 1
        if op == "C":
            if pending is not None and r.startswith("c="):
                f = r[2:].split(".")
                impl[pending] += ":c%s:w%s" % (f[0], f[4])
            pending = None
            continue
        if gi >= len(groups):
            return None
        g = groups[gi]; gi += 1
        writes = ",".join(g["writes"]) or "-"
        threw = r.startswith("E:")
        if op in ("Q", "A", "M"):
            ops.append("BW:%d:%s" % (g["len"], writes) if g["len"] is not None else "B")
        elif op == "W":
            ops.append("W:%d:%s" % (g["len"] or 0, writes))
        else:
            ops.append("R:%s:%d:%s" % (t.split(":")[-1], g["len"] or 0, writes))
            target += 1
            if not threw:
                opened.append(target)
        impl.append("t%d" % (1 if threw else 0)); pending = len(impl) - 1
    return ops, impl, [outs[i] for i in opened if i < len(outs)]


def stack_correspondence(run, quick):
    """Model.Stack against the real exporter/encoder/descriptor writer: the same API calls, the model's flushes placed where the
    sizes of the real write() calls say they happened, the OS answers as injected; compared per call: threw or not, records
    buffered and block counter where the session asks for them; per output: the bytes the OS accepted"""
    q = lambda i, n: "Q:cport=%d,qn=x%s" % (i, ("%02x" % (0x40 + i)) * n)
    scripts = []
    for n in ((700, 1500) if quick else (10, 700, 1500, 2100)):
        scripts.append("BP:tps=1000,max=1000 X:fd:n %s %s C W C %s %s C W C R:fd:0 C R:fd:0 C W C R:fd:1 C %s C R:fd:0 C D" % (q(1, n), q(2, n), q(3, n), q(4, n), q(5, n)))
        scripts.append("BP:tps=1000,max=1000 X:fd:n %s C W C R:fd:1 C %s %s C R:fd:1 C R:fd:0 C W C %s W C R:fd:1 C D" % (q(1, n), q(2, n), q(3, n), q(4, n)))
        scripts.append("BP:tps=1000,max=2 X:fd:n %s %s C %s C R:fd:0 C W C %s %s C R:fd:1 C R:fd:0 C D" % (q(1, n), q(2, n), q(3, n), q(4, n), q(5, n)))
    # random histories: buffer / write_block / rotate with and without export in any order, records of any size, block sizes that make
    # buffer calls flush by themselves
    rng = run.rng
    for _ in range(6 if quick else 60):
        toks, i = [], 0
        for _ in range(rng.randrange(5, 14)):
            k = rng.random()
            if k < 0.5:
                i += 1; toks.append(q(i % 60 + 1, rng.choice([5, 300, 700, 1500, 2100, 4200])))
            elif k < 0.7:
                toks.append("W")
            else:
                toks.append("R:fd:%d" % rng.randrange(2))
            toks.append("C")
        scripts.append("BP:tps=1000,max=%d X:fd:n %s D" % (rng.choice([2, 3, 1000]), " ".join(toks)))
    base = run_os(["os full " + sc for sc in scripts])
    lines, metas = [], []
    for sc, b in zip(scripts, base):
        pb = parse(b)
        if pb is None:
            continue
        lines.append("os stk 0 enospc 0 " + sc); metas.append((sc, 0, "none", 0))
        for k in range(1, pb[2] + 1):
            for kind in ("enospc", "short"):
                for persist in (0, 1):
                    lines.append("os stk %d any-%s %d %s" % (k, kind, persist, sc)); metas.append((sc, k, kind, persist))
    answers = run_os(lines)
    reqs, keep = [], []
    for (sc, k, kind, persist), a in zip(metas, answers):
        st = stack_lines(sc.split(), a)
        if st is None:
            run.model_fail.append((("stack", k, kind, persist), {"why": "the session's answer cannot be aligned with its API calls", "answer": (a or "")[:300]}))
            continue
        ops, impl, outs = st
        reqs.append("stk " + ";".join(ops)); keep.append(((sc, k, kind, persist), impl, outs, a))
    model = G.run_driver(reqs) if run.driver_ok and reqs else []
    seen = set()
    for ((sc, k, kind, persist), impl, outs, a), m in zip(keep, model):
        run.case(("stack", sc[:60], k, kind, persist), True); run.count("Model.Stack correspondence sessions")
        if m is None or not m.startswith("M "):
            run.model_fail.append((("stack", k, kind, persist), {"model": m, "session": sc[:200]})); continue
        mparts = m[2:].split(" | ")
        mops = mparts[0].split()
        mclosed = mparts[1].split() if len(mparts) > 1 and mparts[1] else []
        bad = None
        if len(mops) != len(impl):
            bad = "number of calls"
        else:
            for i, (x, y) in enumerate(zip(impl, mops)):
                if not y.startswith(x.split(":")[0]) or (":" in x and x != y):
                    bad = "call %d: implementation %s, model %s" % (i, x, y); break
        if bad is None:
            # sizes of the descriptor outputs that were closed by a rotation (the last one is closed by destruction: +break)
            sizes = [0 if o in ("-",) else len(o) // 2 for o in outs]
            msizes = [int(c.split("/")[0][2:]) for c in mclosed]
            if sizes[:len(msizes)] != msizes:
                bad = "bytes accepted by the OS per closed output: implementation %s, model %s" % (sizes[:len(msizes)], msizes)
        if bad:
            sig = "stack:" + bad.split(":")[0]
            if sig not in seen:
                seen.add(sig)
                run.model_fail.append((("stack", k, kind, persist), {"why": bad, "session": ("os stk %d any-%s %d %s" % (k, kind, persist, sc) if k else "os stk 0 enospc 0 " + sc)[:600],
                                                                      "implementation": " ".join(impl), "model": m[:400]}))


def check(run):
    run.lean()
    quick = run.tier == "quick"
    stack_correspondence(run, quick)
    run.rule = ("scenarios {name,descriptor} x {none,gzip,xz} x {small,large records}; for each: every fault point k = 1..N (N = number of "
                "write/writev calls of the fault-free run on the first output, measured) x {ENOSPC, EIO, short} x {single, persistent}; "
                "exhaustive over k; distinct by (scenario, k, kind, persist); non-trivial = the fault fired")
    run.trusted += ["harness/os.cpp (write/writev/rename interposed in the harness executable, reaches libstdc++'s ofstream)",
                    "std::ofstream sticky fail state", "Spec/Cdns.lean validates the recovery output"]
    seen = set()
    scenarios = [(t, c, big) for t in ("nm", "fd") for c in ("n", "g", "x") for big in ((False, True) if not quick else (True,))]
    al = aligned_scenarios(quick)
    run.count("aligned scenarios (closing break must flush a full staging buffer)", len(al))
    scenarios += al
    base = run_os(["os full " + mk_script(*sc) for sc in scenarios])
    lines, metas = [], []
    for sc, b in zip(scenarios, base):
        pb = parse(b)
        if pb is None:
            run.spec_fail.append(("fault:crash-baseline", mk_script(*sc), {"implementation": (b or "")[:300]})); continue
        api0, outs0, n0, _ = pb
        # number of data calls that touch output 0 = those before the first rename/rotation; simply try k up to N
        for k in range(1, n0 + 1):
            for kind in ("enospc", "eio", "short"):
                for persist in (0, 1):
                    lines.append("os fault %d %s %d %s" % (k, kind, persist, mk_script(*sc)))
                    metas.append((sc, k, kind, persist, api0, outs0))
    answers = run_os(lines)
    lean_lines, lean_idx = [], []
    parsed = []
    for (sc, k, kind, persist, api0, outs0), ans in zip(metas, answers):
        p = parse(ans)
        parsed.append(p)
        if p:
            api, outs, n, fired = p
            # recovery output = last output
            if outs and outs[-1] not in ("-", "MISSING") and not outs[-1].startswith("PART:"):
                data, err = E.decompress(outs[-1], sc[1])
                if data:
                    lean_lines.append("cdns " + data.hex()); lean_idx.append(len(parsed) - 1)
    lean = G.run_driver(lean_lines) if run.driver_ok else [None] * len(lean_lines)
    lean_of = dict(zip(lean_idx, lean))
    fired_total = 0
    for idx, ((sc, k, kind, persist, api0, outs0), p, line) in enumerate(zip(metas, parsed, lines)):
        tag = "%s/%s%s" % (sc[0], {"n": "plain", "g": "gzip", "x": "xz"}[sc[1]], "/aligned" if len(sc) > 3 else "")
        if p is None:
            sig = "fault:crash:" + tag
            if sig not in seen:
                seen.add(sig); run.spec_fail.append((sig, line, {"implementation": (answers[idx] or "")[:400]}))
            continue
        api, outs, n, fired = p
        run.case((tag, k, kind, persist), fired > 0)
        if fired == 0:
            continue
        fired_total += fired
        # api layout: [Q Q C W C Q Q C W C R C R C W C]  (16 results)
        if len(api) != len(api0):
            sig = "fault:api-results:" + tag
            if sig not in seen:
                seen.add(sig); run.spec_fail.append((sig, line, {"api": api, "fault-free": api0}))
            continue
        lost = outs[0] != outs0[0]
        first_r = 10
        threw = [i for i, r in enumerate(api) if r.startswith("E:")]
        bad = None
        if lost and not any(i <= first_r for i in threw):
            bad = ("unreported-loss", "output 0 lost bytes but no call up to and including the closing rotate_output threw")
        # a write_block that threw keeps its records
        for wi in (3, 8):
            if bad is None and api[wi].startswith("E:") and api[wi - 1] != api[wi + 1]:
                bad = ("records-not-kept", "write_block() threw but the counters changed: before %s after %s" % (api[wi - 1], api[wi + 1]))
        # rotation to a healthy destination after a reported failure succeeds; otherwise the second one does
        if bad is None:
            reported_before = any(i < first_r for i in threw)
            if reported_before and api[first_r].startswith("E:"):
                bad = ("rotate-rethrows", "failure was already reported, yet rotate_output to a healthy destination threw: %s" % api[first_r])
            elif api[12].startswith("E:"):
                bad = ("second-rotate-throws", "the second rotate_output to a healthy destination threw")
        # nothing is written between the two rotations: the output opened by the first and closed by the second holds no byte
        # (a rotation that reported the failure of the OLD output must still start the new one cleanly)
        if bad is None and len(outs) >= 3 and outs[1] not in ("-", "MISSING") and E.decompress(outs[1], sc[1])[0] != b"":
            bad = ("intermediate-output", "the output opened by the first rotation and closed by the second received no block, yet it holds (compressed form): %s" % outs[1][:80])
        # the following write_block produces a complete valid file with the records still buffered
        if bad is None:
            cnt = api[13]       # counters before the final W:  c=items.qr.aec.mm.blocks
            nqr = int(cnt.split("=")[1].split(".")[1]) if cnt.startswith("c=") else -1
            if api[14].startswith("E:"):
                bad = ("recovery-write-throws", "write_block() on the healthy output threw")
            elif nqr > 0:
                lg = lean_of.get(idx)
                if lg is None or lg.startswith("S invalid") or lg.count("Q{") != nqr:
                    bad = ("recovery-file", "recovery output is not a complete valid file with the %d buffered records: %s" % (nqr, (lg or outs[-1])[:200]))
        if bad:
            sig = "fault:%s:%s" % (bad[0], tag)
            if sig not in seen:
                seen.add(sig)
                run.spec_fail.append((sig, line, {"why": bad[1], "api results": " ".join(api), "fault-free api": " ".join(api0),
                                                  "k": k, "kind": kind, "persistent": persist}))
    run.extra["faults_fired"] = fired_total
    refused_destination(run, seen)
    written_between_rotations(run, seen, quick)
    auto_flush_failure(run, seen, quick)
    same_name_recovery(run, seen, quick)
    run.exhaustive = True
    run.extra["exhaustive_over"] = "fault points k of every scenario"


def replay(run, data):
    run.lean()
    for f in data.get("failures", []):
        a = run_os([f["case"]])[0]
        print(f["case"][:300]); print("  ->", (a or "")[:600])
    return 0
