"""C12 — buffering conserves records and flushes blocks exactly at the configured size.
Proof: Props/C12.lean over Model/Exporter.lean.  Tie: real CdnsExporter vs Lean exporter model vs reference semantics:
exhaustive short call sequences (returns, counters, block structure) + random long ones (file contents)."""
import itertools
import vlib, cdnsgen as G, refexp, expcheck as E

QS = ("Q", {"cport": 53}, None)
QU = ("Q", {"tid": 7}, None)
QT = ("Q", {"cport": 54}, [1, None, None, None, None, 2])
A1 = ("A", {"at": 1, "ip": b"\x0a\x00\x00\x01"}, None)
A2 = ("A", {"at": 2, "ip": b"\x0a\x00\x00\x02"}, None)
MM = ("M", {"cport": 1}, None)
ALPHA = [QS, QU, A1, A2, MM, ("W",), ("SA", 0), ("SA", 1), ("C",)]
NAMES = ["Qs", "Qu", "A1", "A2", "M", "W", "S0", "S1", "C"]


def enum_sessions(maxlen):
    out = []
    fp = {"maj": 1, "min": 0, "priv": 1}
    for m in (0, 1, 2, 3):
        for odh in (3, 1, 2):
            bps = [{"tps": 1000, "max": m, "qrh": G.ALL_QRH & ~8, "sigh": G.ALL_SIGH, "rrh": 3, "odh": odh},
                   {"tps": 1000, "max": (m + 1) % 4, "qrh": G.ALL_QRH & ~8, "sigh": G.ALL_SIGH, "rrh": 3, "odh": 3}]
            for L in range(1, maxlen + 1):
                for seq in itertools.product(range(len(ALPHA)), repeat=L):
                    ops = [ALPHA[i] for i in seq] + [("C",)]
                    s = refexp.make_session(fp, bps, ops, end_flush=True)
                    out.append(s + ("m%d/odh%d/" % (m, odh) + ".".join(NAMES[i] for i in seq),))
    return out


def check(run):
    run.lean()
    rng = run.rng
    quick = run.tier == "quick"
    maxlen = 4 if quick else 5
    run.rule = ("(1) EXHAUSTIVE: all call sequences of length <= %d over {buffer_qr storable/unstorable, buffer_aec key1/key2, buffer_mm, "
                "write_block, set_active 0/1, counters} x max_block_items {0,1,2,3} x 3 other-data hint settings; compared: non-zero "
                "return pattern, counters, and the block structure of the output (library reader) against the Lean exporter model "
                "and the reference; (2) random long sessions with full record contents; distinct by session text") % maxlen
    run.trusted += ["harness/file.cpp", "Driver/Exm.lean", "tools/refexp.py (reference semantics)"]
    sessions = enum_sessions(maxlen)
    run.count("exhaustive sessions", len(sessions))
    nrand = 1500 if quick else 40000
    for i in range(nrand):
        s = refexp.gen_session(rng, maxes=[0, 1, 2, 3], nops=rng.randrange(1, 40))
        sessions.append(s + ("rand",))
    # maxima around the 32-bit boundary and at the top of the 64-bit member (a block is then never full in a short session)
    for i in range(120 if quick else 3000):
        s = refexp.gen_session(rng, maxes=[2**32, 2**32 + 1, 2**32 + 2, 2**32 + 3, 2**33, 2**31, 2**63, 2**64 - 1], nops=rng.randrange(3, 30))
        sessions.append(s + ("rand",))
        run.count("sessions with max_block_items >= 2^31")
    res = E.run_sessions(run, sessions, need_lean=False)
    # (sessions with an application-built block are outside the abstract exporter model: no request, no comparison)
    model = G.run_driver([s[1].abstract or "exm" for s in sessions]) if run.driver_ok else [None] * len(sessions)
    model = [m if s[1].abstract else None for s, m in zip(sessions, model)]
    seen = set()
    for s, r, m in zip(sessions, res, model):
        run.case(s[3] if s[3] != "rand" else s[0][:200], True)
        bad = E.judge_returns(s[:3], r) + E.judge_files(s[:3], r)
        E.record_failures(run, s, bad, seen)
        if not bad and m is not None:
            want = refexp.expected_model_answer(s[1], s[2])
            if m.strip() != want.strip():
                if len(run.model_fail) < 10:
                    run.model_fail.append((s[1].abstract, {"model": m[:800], "reference(=implementation)": want[:800], "session": s[0][:1500]}))
    E.scale_check(run, seen, "exp")
    run.exhaustive = True
    run.extra["exhaustive_over"] = "call sequences of length <= %d over a 9-op alphabet x 4 block sizes x 3 hint settings" % maxlen


def replay(run, data):
    run.lean()
    for f in data.get("failures", []):
        ans = G.run_exp([f["case"]])[0]
        print(f["case"][:500]); print("  ->", (ans or "")[:1000])
    return 0
