"""C09 — file preamble and block parameters survive write -> read unchanged.
Tie / decision on the implementation: preambles over versions 0..255, private version absent/present, 1..8 parameter sets, every
subset of optional members, full-width integers, empty/long lists with unassigned codes, arbitrary text, collection parameters
absent/empty/partial/full are written by the real exporter and read back by the library reader and by the independent Lean
reader; both must equal the value written, member for member."""
import vlib, cdnsgen as G, refexp, expcheck as E


def gen_preamble(rng):
    fp = {"maj": rng.choice([1, 0, 255, rng.randrange(256)]), "min": rng.choice([0, 1, 255, rng.randrange(256)])}
    if rng.random() < 0.6:
        fp["priv"] = rng.choice([0, 1, 255, rng.randrange(256)])
    bps = []
    for _ in range(rng.choice([1, 1, 2, 3, 8])):
        bp = G.gen_bp(rng, simple=False, tps=rng.choice([1, 1000, 2**64 - 1, rng.randrange(1, 2**40)]),
                      maxb=rng.choice([0, 1, 5, 2**64 - 1, 2**32, 10000]))
        if rng.random() < 0.3:
            bp["qrh"], bp["sigh"], bp["rrh"], bp["odh"] = rng.choice([0, 2**32 - 1, 2**18 - 1]), rng.choice([0, 2**32 - 1]), rng.choice([0, 255, 3]), rng.choice([255, 3])
        if rng.random() < 0.2:
            bp["opc"] = [rng.randrange(256) for _ in range(rng.choice([0, 40]))]
            bp["rrt"] = [rng.randrange(65536) for _ in range(rng.choice([0, 60]))]
        bps.append(bp)
    # the first set must let one record through so that the file is written at all
    bps[0]["qrh"] = bps[0].get("qrh", G.ALL_QRH) | 4
    return fp, bps


def check(run):
    run.lean()
    rng = run.rng
    quick = run.tier == "quick"
    run.rule = ("random FilePreamble values (see module doc) exported with one record and read back; the preamble part of the library "
                "reader's dump and of the independent Lean reader's dump must equal the written value; distinct by session text")
    run.trusted += ["harness/file.cpp, records.h (show_bp renders every member)", "Spec/Cdns.lean", "tools/cdnsgen.py expected_bp_dump"]
    n = 5000 if quick else 200000
    sessions = []
    for i in range(n):
        fp, bps = gen_preamble(rng)
        ops = [("Q", {"cport": 53}, None)]
        if i % 5 == 4:
            # parameter sets handed over through add_block_parameters (before anything is written), some objects twice
            first, late = bps[:1], bps[1:]
            ops = []
            for j, bp in enumerate(late):
                ops.append(("AB", bp))
                if rng.random() < 0.5:
                    ops.append(("ABR", 1 + rng.randrange(j + 1)))
                if rng.random() < 0.4:
                    ops.append(("ABA", rng.randrange(1 + j)))
            ops.append(("Q", {"cport": 53}, None))
            sessions.append(refexp.make_session(fp, first, ops, target=rng.choice(["fd", "fd", "nm"])))
            continue
        sessions.append(refexp.make_session(fp, bps, ops, target=rng.choice(["fd", "fd", "nm"])))
    res = E.run_sessions(run, sessions)
    seen = set()
    # correspondence with the Lean schema interpreter: the MODEL of FilePreamble::read (through the window model) must
    # return the same preamble, and the MODEL of FilePreamble::write must reproduce the library's bytes exactly
    sch_lines, sch_idx = [], []
    for si, r in enumerate(res):
        if r["results"] is not None and r["plain"] and r["plain"][0][0]:
            sch_lines.append("sch " + r["plain"][0][0].hex()); sch_idx.append(si)
    sch = dict(zip(sch_idx, G.run_driver(sch_lines))) if run.driver_ok else {}
    for si, (s, r) in enumerate(zip(sessions, res)):
        run.case(s[0][:300], True, key=s[0])
        run.count("parameter sets:%d" % len(s[1].bps))
        bads = E.judge_files(s, r, tag="preamble")
        E.record_failures(run, s, bads, seen)
        m = sch.get(si)
        if not bads and m is not None and r["rd"].get(0):
            impl_pre = r["rd"][0][2:].split(" ")[0]
            if not m.startswith("M ") or m[2:].split(" #")[0] != impl_pre:
                if len(run.model_fail) < 5:
                    run.model_fail.append((s[0][:3000], {"schema model (FilePreamble::read)": m[:1200], "implementation": impl_pre[:1200]}))
            elif not m.endswith("#rewrite=same") and len(run.model_fail) < 5:
                run.model_fail.append((s[0][:3000], {"why": "model of FilePreamble::write does not reproduce the library's preamble bytes", "model": m[-60:]}))


def replay(run, data):
    run.lean()
    for f in data.get("failures", []):
        ans = G.run_exp([f["case"]])[0]
        print(f["case"][:500]); print("  ->", (ans or "")[:1000])
    return 0
