"""C05 — end of input is always detected; a truncated file yields only complete blocks.
Proof: Props/C05.lean (window refinement for every decoder program; extension stability; prefix_blocks).
Tie: (1) decoder level - real CdnsDecoder vs window model on inputs of length 0, 1, k*65535 (+-1), unreadable streams, first
operation peek or read; (2) file level - valid files of 1-4 windows cut at every point around each window multiple and each
block boundary and at random points; the real reader must return exactly the blocks that end inside the prefix and then
end-of-input (spec oracle: block end offsets from an independent CBOR walk)."""
import vlib, cdnsgen as G, cborgen, refexp, expcheck as E
from checks.common import pair

WIN = 65535


def decoder_cases():
    L = []
    for kind in ("s", "f"):
        for first in ("pk", "ru", "rbs", "sk", "ras", "rb", "rbk"):
            L.append(("dec %s - %s" % (kind, first), ["E:end"]))
    for first in ("pk", "ru", "sk"):
        L.append(("dec u - %s" % first, ["E:end"]))
        L.append(("dec u 0102 %s" % first, ["E:end"]))
        # other streams that cannot be read: a file that could not be opened (failbit), a stream already read to its end
        for kind in ("m", "e", "m+", "e+"):
            L.append(("dec %s - %s" % (kind, first + (",pk,ru" if kind.endswith("+") else "")), ["E:end"] * (3 if kind.endswith("+") else 1)))
            L.append(("dec %s 0102 %s" % (kind, first), ["E:end"]))
    # exactly k windows of data, consumed completely, then one more operation
    for k in (1, 2, 3):
        for delta in (-2, -1, 0, 1, 2):
            total = WIN * k + delta
            for hl in (5, 3):
                n = total - hl
                if n < 0 or len(cborgen.head(2, n)) != hl:
                    continue
                for kind in ("s", "f"):
                    for nxt in ("pk", "ru", "sk", "rbs"):
                        L.append(("dec %s P%d:%d rbs#,%s" % (kind, n, k, nxt), [None, "E:end"]))
                        L.append(("dec %s P%d:%d+05 rbs#,%s,pk" % (kind, n - 1 if n > 0 else 0, k, "ru"), [None, "5", "E:end"]))
    # an item head with a 1/2/4/8-byte argument placed so that it straddles a window multiple, the input ending inside the
    # argument (before or after the refill): every major type's reader, skip, and peek followed by a read
    readers = {0: ["ru", "ri", "sk"], 1: ["rn", "ri", "sk"], 2: ["rbs", "sk"], 3: ["rts", "sk"], 4: ["ras", "sk"], 5: ["rms", "sk"], 6: ["sk"],
               7: ["sk"]}        # (major type 7: one-byte simple values and floats of 2, 4 and 8 bytes, skipped)
    for k in (1, 2):
        for j in range(0, 10):
            start = WIN * k - j                   # offset of the item head
            n = start - 5                          # the padding byte string (5-byte head) ends where the item starts
            if len(cborgen.head(2, n)) != 5:
                continue
            for major, ops in readers.items():
                for wi, width in enumerate((1, 2, 4, 8)):
                    item = bytes([major << 5 | (24 + wi)]) + bytes((0xa1 + 17 * x) & 0xff for x in range(width))
                    for keep in range(1, width + 1):        # bytes of the item that are present (head included)
                        for op in ops:
                            kind = "sf"[(j + keep + major) & 1]
                            L.append(("dec %s P%d:%d+%s rbs#,%s" % (kind, n, k, item[:keep].hex(), op), [None, "E:end"]))
                            if op != "sk" and keep == width and j < 3:
                                L.append(("dec %s P%d:%d+%s rbs#,pk,%s" % (kind, n, k, item[:keep].hex(), op), [None, str(major << 5), "E:end"]))
    # the end of input is reported again by every later call on the same decoder object (input lengths around the window
    # multiples: the End then comes from a refill that reads nothing, not from eofbit)
    for total in (0, 1, 1000, WIN - 1, WIN, WIN + 1, 2 * WIN, 2 * WIN + 1, 3 * WIN):
        n = total - len(cborgen.head(2, max(total - 5, 0))) if total >= 24 else None
        for kind in ("s+", "f+"):
            if total == 0:
                L.append(("dec %s - pk,ru,sk,pk,rbs,ras" % kind, ["E:end"] * 6))
            elif n is not None and len(cborgen.head(2, n)) + n == total:
                L.append(("dec %s P%d:7 rbs#,pk,ru,sk,pk,rbs,ras,rbk" % (kind, n), [None] + ["E:end"] * 7))
                L.append(("dec %s P%d:7 sk,ru,pk,ri,sk" % (kind, n), ["ok"] + ["E:end"] * 4))
    L.append(("dec u+ - pk,ru,sk,pk", ["E:end"] * 4))
    # a definite-length string whose payload is cut short by the end of the input: reading AND skipping it report the end
    for major, rd in ((2, "rbs#"), (3, "rts#")):
        for n in (1, 10, 2048, WIN - 3, WIN, WIN + 1, 70000, 2 * WIN + 5):
            for keep in sorted(set([0, 1, n // 2, n - 1])):
                if keep >= n:
                    continue
                for pre in (0, WIN - 4):
                    prefix = ("P%d:3+" % (pre - 5)) if pre else ""
                    first = "rbs#," if pre else ""
                    body = cborgen.head(major, n).hex() + ("+R%d:5" % keep if keep else "")
                    for op in (rd, "sk"):
                        kind = "sf"[(n + keep + major) & 1]
                        L.append(("dec %s %s%s %s%s" % (kind, prefix, body, first, op), ([None] if pre else []) + ["E:end"]))
                        L.append(("dec %s+ %s%s %s%s,pk,sk" % (kind, prefix, body, first, op), ([None] if pre else []) + ["E:end"] * 3))
    # many one-byte items across the boundary
    for total in (WIN - 1, WIN, WIN + 1, 2 * WIN):
        L.append(("dec s R%d:0 %s" % (0, "pk"), ["E:end"]))
    # the same sessions on a stream whose bytes arrive while it is read (a pipe fed by another thread): every 5th case
    extra = []
    for k, (line, exp) in enumerate(L):
        parts = line.split(" ")
        if k % 5 == 0 and parts[1] in ("s", "f", "s+", "f+"):
            parts[1] = "p" + parts[1][1:]
            extra.append((" ".join(parts), exp))
    return L + extra


FNV0 = 14695981039346656037


def fnv(bs, h):
    for c in bs:
        h = ((h ^ c) * 1099511628211) & 0xFFFFFFFFFFFFFFFF
    return h


def files(run, rng, quick):
    """valid files of several sizes from the real exporter"""
    sessions = []
    sizes = [(3, 2), (40, 7), (600, 50), (900, 100)] if quick else [(3, 2), (40, 7), (600, 50), (900, 100), (2500, 300), (2500, 40)]
    for nops, maxb in sizes:
        for _ in range(2 if quick else 6):
            sessions.append(refexp.gen_session(rng, nops=nops, maxes=[maxb], nbps=1, stats_p=0.1))
    # small files whose preamble uses everything a preamble can hold (several parameter sets, collection parameters, optional
    # members, lists, texts): their header is cut at EVERY byte
    for _ in range(4 if quick else 12):
        sessions.append(refexp.gen_session(rng, nops=rng.randrange(2, 12), maxes=[3], nbps=rng.choice([2, 3]), simple_bp=False, stats_p=0.3))
    res = E.run_sessions(run, sessions)
    out = []
    for s, r in zip(sessions, res):
        if r["results"] is None:
            run.spec_fail.append(("c05:exporter-crash", s[0][:2000], {"implementation": (r["raw"] or "")[:300]}))
            continue
        for oi, (data, err) in enumerate(r["plain"]):
            if data and r["rd"].get(oi, "").endswith(" EOF"):
                out.append((data, r["rd"][oi][2:]))
    # the same kind of file as another writer may lay it out: members the reader does not know (strings, nested containers,
    # tags) in every map - the skipping code then sits at the cut points too
    extra = []
    for data, _ in out[:(3 if quick else 5)]:
        try:
            extra.append(cborgen.encode(cborgen.parse(data)[0], rng, 0.0, cborgen.unknown_member))
        except Exception:
            pass
    # …and laid out as another writer may: every block an indefinite-length map (bf … ff), and the file array itself of
    # indefinite length (9f … ff) - made by hand from the smallest files (only heads and breaks change), cut at every byte
    for data, _ in sorted(out, key=lambda x: len(x[0]))[:(3 if quick else 10)]:
        try:
            top = cborgen.parse(data)[0]
            blocks = top.children[2].children
            if data[0] != 0x83 or any(not (0xa0 <= data[b.start] <= 0xb7) for b in blocks):
                continue
            pieces, pos = [], 0
            for b in blocks:
                pieces.append(data[pos:b.start] + b"\xbf" + data[b.start + 1:b.end] + b"\xff"); pos = b.end
            v1 = b"".join(pieces) + data[pos:]
            extra.append(v1)
            extra.append(b"\x9f" + v1[1:] + b"\xff")
        except Exception:
            pass
    for d2, a in zip(extra, G.run_rd(["rd s " + d.hex() for d in extra])):
        if a and a.startswith("I ") and a.endswith(" EOF"):
            out.append((d2, a[2:])); run.count("files with unknown members")
    return out


def boundaries(data):
    top, _ = cborgen.parse(data)
    blocks_arr = top.children[2]
    hdr_end = top.children[1].end + 1        # preamble + the block array start byte
    ends = [b.end for b in blocks_arr.children]
    return hdr_end, ends


def check(run):
    run.lean()
    rng = run.rng
    quick = run.tier == "quick"
    run.rule = ("decoder level: stream kinds string/file/unopened x first operation x lengths {0, k*65535-2..k*65535+2}; file level: "
                "files of 1-4 windows from the real exporter x cut points (every n within +-16 of each window multiple and each block "
                "boundary, header boundary, +random); distinct by (file, cut); non-trivial = cut strictly inside the file")
    run.trusted += ["harness/dec.cpp, harness/file.cpp", "Driver/Dec.lean (window model)", "tools/cborgen.py parse (independent CBOR walk for block offsets)"]
    seen = set()
    # (1) decoder level
    dc = decoder_cases()
    impl, model = pair(run, "dec", [c[0] for c in dc])
    for (line, exp), i, m in zip(dc, impl, model):
        run.case(line, True); run.count("decoder-level")
        got = (i or "")[2:].split(";") if i and i.startswith("I ") else None
        ok = got is not None and len(got) == len(exp) and all(e is None or e == g for e, g in zip(exp, got))
        if not ok:
            sig = "end:" + line.split()[1] + ":" + line.split()[-1].split(",")[-1]
            if sig not in seen:
                seen.add(sig); run.spec_fail.append((sig, line, {"implementation": (i or "")[:300], "expected": exp}))
        elif m is not None and m[2:] != i[2:] and len(run.model_fail) < 10:
            run.model_fail.append((line, {"implementation": i[:300], "model": m[:300]}))
    # (2) file level
    fl = files(run, rng, quick)
    lines, metas = [], []
    for data, full_dump in fl:
        hdr_end, ends = boundaries(data)
        parts = full_dump.split(" ")
        pre, blocks = parts[0], parts[1:-1]
        cuts = set()
        for c in [0, 1, hdr_end, len(data)] + ends + [k * WIN for k in range(1, len(data) // WIN + 1)]:
            for d in range(-16, 17):
                if 0 <= c + d <= len(data):
                    cuts.add(c + d)
        if hdr_end <= 6000:
            cuts.update(range(0, hdr_end + 1))          # every byte of the file header and preamble
        if len(data) <= 2500:
            cuts.update(range(0, len(data) + 1))        # small files: every byte
        for _ in range(60 if quick else 1200):
            cuts.add(rng.randrange(0, len(data) + 1))
        cuts = sorted(cuts)
        for kind in (["s", "p"] if quick else ["s", "f", "p"]):
            for j in range(0, len(cuts), 64):
                if kind == "p" and j >= 3 * 64:
                    break                      # (the pipe-fed stream: a sample of the cuts of every file)
                chunk = cuts[j:j + 64]
                lines.append("rdc %s %s %s" % (kind, data.hex(), ",".join(map(str, chunk))))
                metas.append((data, pre, blocks, hdr_end, ends, chunk))
    sticky_reader(run, rng, fl, seen, quick)
    import time as _t; _t0 = _t.time()
    answers = G.run_rd(lines)
    run.count('seconds:library on cuts', int(_t.time() - _t0))
    # the schema model of CdnsReader (header + read_block loop, Model.File.readBlock – the subject of C05.truncated_blocks) on the same cuts
    # (the model re-reads the whole prefix for every cut: on files above 20 KB only every third chunk of cuts is replayed on it,
    #  above 70 KB every sixth)
    msel = [i for i, (l, mt) in enumerate(zip(lines, metas)) if len(mt[0]) <= 20000 or i % (3 if len(mt[0]) <= 70000 else 6) == 0]
    mres = G.run_driver(["blkc " + " ".join(lines[i].split()[2:]) for i in msel]) if run.driver_ok else [None] * len(msel)
    run.count('seconds:model on cuts', int(_t.time() - _t0))
    manswers = [None] * len(lines)
    for i, a in zip(msel, mres):
        manswers[i] = a
    # answers are digests "<length>:<fnv64>" of the full answer string; the expected digests are computed incrementally per file
    digests = {}
    def expected_digests(data, pre, blocks):
        key = id(data)
        if key not in digests:
            st = fnv(b"I " + pre.encode(), FNV0)
            ln = 2 + len(pre)
            states = [(st, ln)]                     # after k complete blocks
            for bl in blocks:
                st = fnv(b" " + bl.encode(), st); ln += 1 + len(bl)
                states.append((st, ln))
            digests[key] = states
        return digests[key]
    def dg(state, suffix):
        st, ln = state
        return "%d:%016x" % (ln + len(suffix), fnv(suffix.encode(), st))
    for (data, pre, blocks, hdr_end, ends, chunk), ans, mans in zip(metas, answers, manswers):
        if ans is None or ans.startswith("CRASH"):
            if "cut:crash" not in seen:
                seen.add("cut:crash"); run.spec_fail.append(("cut:crash", "file of %d bytes, cuts %s" % (len(data), chunk[:5]), {"implementation": (ans or "")[:300], "file": data.hex()[:4000]}))
            continue
        states = expected_digests(data, pre, blocks)
        got = ans.split(" @@ ")
        mgot = mans.split(" @@ ") if mans is not None else [None] * len(got)
        for n, g, m in zip(chunk, got, mgot):
            run.case(("file%d" % len(data), n), 0 < n < len(data))
            run.count("file-level cuts")
            if n >= len(data):
                exp = dg(states[len(blocks)], " EOF")
            elif n < hdr_end:
                exp = "%d:%016x" % (8, fnv(b"I  E:end", FNV0))
            else:
                k = sum(1 for e in ends if e <= n)
                exp = dg(states[k], " E:end")
            if g != exp:
                where = "header" if n < hdr_end else ("block-boundary" if n in ends else ("window" if any(abs(n - k * WIN) <= 16 for k in range(1, 6)) else "inside"))
                sig = "cut:" + where
                if sig not in seen:
                    seen.add(sig)
                    full = G.run_rd(["rd s %s %d" % (data.hex(), n)])[0]
                    run.spec_fail.append((sig, "file of %d bytes cut at %d" % (len(data), n),
                                          {"cut": n, "file_hex": data.hex() if len(data) < 3000 else data.hex()[:3000] + "…", "implementation": (full or "")[:600],
                                           "expected": "preamble + the %d blocks ending at or before the cut + %s" % (sum(1 for e in ends if e <= n), "EOF" if n >= len(data) else "E:end"),
                                           "block ends": ends[:20], "header end": hdr_end}))
            if m is not None:
                run.count("file-level cuts: schema model compared")
                if m != g and len(run.model_fail) < 5:
                    mfull = G.run_driver(["blkc1 %s %d" % (data.hex(), n)])[0]
                    lfull = G.run_rd(["rd s %s %d" % (data.hex(), n)])[0]
                    run.model_fail.append(("blkc1 %s %d" % (data.hex()[:3000], n), {"correspondence": "Model.File.readBlock loop vs CdnsReader on a truncated file",
                                           "cut": n, "file bytes": len(data), "model": (mfull or "")[:600], "library": (lfull or "")[:600]}))


def sticky_reader(run, rng, fl, seen, quick):
    """the application goes on calling read_block() after the end of a truncated input was reported: every further call must
    report it again - never a block, never a clean end of file - for the exporter's layout (indefinite block array) and for the
    same file with a definite-length block array (another writer's layout: the reader then counts blocks)"""
    import re
    lines, metas = [], []
    for data, _ in [f for f in fl if len(f[0]) < 40000][:(3 if quick else 8)]:
        try:
            top, _e = cborgen.parse(data)
            top.children[2].indef = False
            definite = cborgen.encode(top)
        except Exception:
            continue
        for variant, d in (("indefinite", data), ("definite", definite)):
            hdr_end, ends = boundaries(d)
            cuts = set()
            for c in [hdr_end] + ends:
                for dd in (-2, -1, 0, 1, 3):
                    if 0 < c + dd < len(d):
                        cuts.add(c + dd)
            for _ in range(25 if quick else 200):
                cuts.add(rng.randrange(1, len(d)))
            for n in sorted(cuts):
                lines.append("rd %s+ %s %d" % ("sf"[n & 1], d.hex(), n)); metas.append((variant, len(d), n, hdr_end))
    for (variant, size, n, hdr_end), line, a in zip(metas, lines, G.run_rd(lines)):
        run.case(("sticky", variant, size, n), True); run.count("reader goes on after the end: " + variant)
        tail = re.findall(r" \+(\S+)", a or "")
        first = re.search(r" (E:\w+)(?: \+|$)", a or "")
        if n < hdr_end:
            ok = a == "I  E:end"           # the constructor threw: there is no reader to go on with
        else:
            ok = a is not None and first is not None and first.group(1) == "E:end" and len(tail) >= 3 and all(t == "E:end" for t in tail)
        if not ok:
            sig = "sticky:" + variant + ":" + ("eof" if "EOF" in tail else "block" if "B" in tail else "other")
            if sig not in seen:
                seen.add(sig)
                run.spec_fail.append((sig, line[:6000], {"cut": n, "file bytes": size, "block array": variant,
                                                         "implementation (first exception, then the further calls)": (a or "")[-300:],
                                                         "expected": "E:end, and E:end again for every further read_block()"}))


def replay(run, data):
    run.lean()
    for f in data.get("failures", []):
        print(f["case"], str(f["detail"])[:600])
    return 0
