"""C15 — a named output becomes visible under its final name only when complete.
Proof: Props/C15.lean (final_names_complete over the syscall/file-system model, every crash point, every split of the data).
Tie: (1) the real library's syscall trace on named outputs (write/writev/rename interposed in the harness) must be the model's
canonical trace - data to '<name>.part' only, file closed before the single rename; (2) failing-input search = real crash
enumeration: for every k the process _exit()s immediately before its k-th write/writev/rename; every file then found under a
final name must be the pre-existing one or the complete output of the uncrashed run."""
import vlib, cdnsgen as G, expcheck as E
from checks.c16 import run_os


def scenarios(rng, quick):
    S = []
    def q(i, pad=10):
        return "Q:cport=%d,qn=x%s" % (i, "42" * pad)
    for comp in ("n", "g", "x"):
        for pad in ((10, 4000) if not quick else (2000,)):
            base = "BP:tps=1000,max=3 X:nm:%s " % comp
            S.append(("single/" + comp, base + " ".join(q(i, pad) for i in range(1, 5)) + " W D", {}))
            S.append(("rotations/" + comp, base + q(1, pad) + " " + q(2, pad) + " R:nm:1 " + q(3, pad) + " R:nm:0 R:nm:1 " + q(4, pad) + " W D", {}))
            S.append(("destroy-with-buffered/" + comp, base + q(1, pad) + " W " + q(2, pad) + " D", {}))
            S.append(("onto-existing/" + comp, base + q(1, pad) + " R:nm:1 " + q(2, pad) + " W D",
                      {"s0_o1" + {"n": "", "g": ".gz", "x": ".xz"}[comp]: "0102030405"}))
            S.append(("nothing-written/" + comp, base + "R:nm:1 R:nm:0 D", {}))
            S.append(("rotate-after-flush/" + comp, base + " ".join(q(i, pad) for i in range(1, 4)) + " R:nm:1 " + q(5, pad) + " W R:nm:0 " + q(6, pad) + " D", {}))
    if not quick:
        for i in range(280):
            comp = rng.choice("ngx")
            toks = ["BP:tps=1000,max=%d" % rng.choice([1, 2, 5]), "X:nm:" + comp]
            for _ in range(rng.randrange(1, 12)):
                k = rng.random()
                toks.append(q(rng.randrange(100), rng.choice([5, 800, 3000])) if k < 0.6 else ("W" if k < 0.75 else "R:nm:%d" % rng.randrange(2)))
            toks.append("D")
            S.append(("random/" + comp, " ".join(toks), {}))
    return S


def files_of(ans):
    part = ans.split(" | F")[-1] if " | F" in ans else ""
    out = {}
    for kv in part.split():
        n, _, h = kv.partition("=")
        out[n] = h
    return out


def canon_trace(t):
    out = []
    for e in t.strip(",").split(","):
        if not e:
            continue
        if e.startswith("w:"):
            name = e.split(":")[1]
            if not out or out[-1] != "w:" + name:
                out.append("w:" + name)
        else:
            out.append(e)
    return ",".join(out)


def check(run):
    run.lean()
    rng = run.rng
    quick = run.tier == "quick"
    run.rule = ("scenarios (plain/gzip/xz; single output, several rotations incl. empty ones, rotation onto an existing name, destruction "
                "with/without buffered data%s) x EVERY crash point k = 1..N (N measured per scenario); distinct by (scenario, k)") % ("" if quick else ", 280 random scenarios")
    run.trusted += ["harness/os.cpp (write/writev/rename interposed; fclose not interposable - 'closed before rename' is read from /proc/self/fd at rename time)",
                    "Driver/Fs.lean", "rename(2) atomicity, no power loss (process death only)"]
    seen = set()
    S = scenarios(rng, quick)
    def pre_toks(pre):
        return " ".join("PRE:%s=%s" % kv for kv in pre.items())
    full = run_os(["os full %s %s" % (pre_toks(pre), sess) for _, sess, pre in S])
    crash_lines, metas = [], []
    model_lines = []
    for (name, sess, pre), ans in zip(S, full):
        if ans is None or not ans.startswith("I"):
            run.spec_fail.append(("crash:baseline-crash", sess, {"implementation": (ans or "")[:300]})); model_lines.append(None); continue
        parts = ans.split(" | ")
        meta = dict(kv.split("=") for kv in parts[2].split())
        n = int(meta["N"])
        trace = canon_trace(parts[3][2:] if parts[3].startswith("T ") else "")
        final = files_of(ans)
        # (1) trace vs model: outputs in order with their sizes
        outs_in_order = []
        for e in trace.split(","):
            if e.startswith("mv:"):
                src, dst = e[3:].split(":")[0].split(">")
                outs_in_order.append((dst, 1 if ("w:" + src) in trace.split(",") else 0))
        model_lines.append(("fs " + ",".join("%s:%d" % x for x in outs_in_order), trace, name, sess))
        for k in range(1, n + 1):
            crash_lines.append("os crash %d %s %s" % (k, pre_toks(pre), sess)); metas.append((name, sess, pre, final, k))
    # every file the uncrashed run leaves under a final name must itself be a complete valid output (or the pre-existing file)
    val_lines, val_meta = [], []
    for (name, sess, pre), ans in zip(S, full):
        if ans is None or not ans.startswith("I"):
            continue
        comp = name.split("/")[1]
        for fname, content in files_of(ans).items():
            if fname.endswith(".part") or pre.get(fname) == content or content == "-":
                continue
            data, err = E.decompress(content, comp)
            if data is None:
                if "final:undecodable" not in seen:
                    seen.add("final:undecodable"); run.spec_fail.append(("final:undecodable", "os full " + sess, {"file": fname, "why": err}))
            elif data:
                val_lines.append("cdns " + data.hex()); val_meta.append((name, sess, fname))
    if run.driver_ok and val_lines:
        for (name, sess, fname), lg in zip(val_meta, G.run_driver(val_lines)):
            run.case(("final-file", name, fname), True)
            if lg is None or lg.startswith("S invalid"):
                sig = "final:invalid-complete-file:" + name.split("/")[0]
                if sig not in seen:
                    seen.add(sig); run.spec_fail.append((sig, "os full " + sess, {"file": fname, "strict parser/validator": (lg or "")[:300]}))
    ml = [m for m in model_lines if m]
    mans = G.run_driver([m[0] for m in ml]) if run.driver_ok and ml else []
    for (line, trace, name, sess), a in zip(ml, mans):
        run.case(("trace", name), True)
        if "OPEN" in trace:
            if "trace:not-closed" not in seen:
                seen.add("trace:not-closed"); run.spec_fail.append(("trace:not-closed", sess, {"why": "the .part file was still open when it was renamed", "trace": trace[:600]}))
        elif a is not None and a[2:] != trace and len(run.model_fail) < 5:
            run.model_fail.append((line, {"implementation trace": trace[:600], "model trace": a[:600], "scenario": sess[:600]}))
    answers = run_os(crash_lines)
    for (name, sess, pre, final, k), ans in zip(metas, answers):
        run.case((name, k), True)
        run.count(name.split("/")[0])
        if ans is None or not ans.startswith("I"):
            sig = "crash:harness:" + name
            if sig not in seen:
                seen.add(sig); run.spec_fail.append((sig, "os crash %d %s" % (k, sess), {"implementation": (ans or "")[:300]}))
            continue
        found = files_of(ans)
        for fname, content in found.items():
            if fname.endswith(".part"):
                continue
            allowed = {pre.get(fname), final.get(fname)}
            if content not in allowed:
                sig = "crash:partial-final-file:" + name.split("/")[0]
                if sig not in seen:
                    seen.add(sig)
                    run.spec_fail.append((sig, "os crash %d %s %s" % (k, pre_toks(pre), sess),
                                          {"k": k, "file": fname, "found bytes": len(content) // 2, "complete bytes": len(final.get(fname, "")) // 2,
                                           "why": "a file under a final name is neither the pre-existing one nor the complete output"}))
    run.exhaustive = True
    run.extra["exhaustive_over"] = "crash points k = 1..N of every scenario"


def replay(run, data):
    run.lean()
    for f in data.get("failures", []):
        a = run_os([f["case"]])[0]
        print(f["case"][:300]); print("  ->", (a or "")[:400])
    return 0
