"""C15 — a named output becomes visible under its final name only when complete.
Proof: Props/C15.lean (final_names_complete over the syscall/file-system model, every crash point, every split of the data).
Tie: (1) the real library's syscall trace on named outputs (write/writev/rename interposed in the harness) must be the model's
canonical trace - data to '<name>.part' only, file closed before the single rename; (2) failing-input search = real crash
enumeration: for every k the process _exit()s immediately before its k-th write/writev/rename; every file then found under a
final name must be the pre-existing one or the complete output of the uncrashed run."""
import vlib, cdnsgen as G, expcheck as E
from checks.c16 import run_os


def scenarios(rng, quick):
    S = []
    def q(i, pad=10):
        return "Q:cport=%d,qn=x%s" % (i, "42" * pad)
    for comp in ("n", "g", "x"):
        for pad in ((10, 4000) if not quick else (2000,)):
            base = "BP:tps=1000,max=3 X:nm:%s " % comp
            S.append(("single/" + comp, base + " ".join(q(i, pad) for i in range(1, 5)) + " W D", {}))
            S.append(("rotations/" + comp, base + q(1, pad) + " " + q(2, pad) + " R:nm:1 " + q(3, pad) + " R:nm:0 R:nm:1 " + q(4, pad) + " W D", {}))
            S.append(("destroy-with-buffered/" + comp, base + q(1, pad) + " W " + q(2, pad) + " D", {}))
            S.append(("onto-existing/" + comp, base + q(1, pad) + " R:nm:1 " + q(2, pad) + " W D",
                      {"s0_o1" + {"n": "", "g": ".gz", "x": ".xz"}[comp]: "0102030405"}))
            S.append(("nothing-written/" + comp, base + "R:nm:1 R:nm:0 D", {}))
            # a '.part' file left behind by an earlier run that died: the new output must not build on it
            sfx = {"n": "", "g": ".gz", "x": ".xz"}[comp]
            S.append(("stale-part/" + comp, base + q(1, pad) + " R:nm:1 " + q(2, pad) + " W D",
                      {"s0_o0" + sfx + ".part": "8365432d444e53" * 40, "s0_o1" + sfx + ".part": "00" * 5000}))
            # the temporary name '<output>.part' cannot be opened (a directory sits there): the rotation must fail without ever
            # writing under the final name - the earlier complete file of that name stays as it is at every crash point
            S.append(("part-unopenable/" + comp, base + q(1, pad) + " R:nm:1 " + q(2, pad) + " W R:nm:0 " + q(3, pad) + " W D",
                      {"s0_o1" + sfx: "0102030405", "DIR:s0_o1" + sfx + ".part": ""}))
            if comp == "n":
                # an output whose NAME ends in ".part": its temporary name is '<name>.part' all the same, and the file of that name
                # left by an earlier run stays intact until the new one is complete
                S.append(("name-ends-in-part/" + comp, "NM:.part " + base + q(1, pad) + " R:nm:1 " + q(2, pad) + " W D",
                          {"s0_o0.part": "0102030405", "s0_o1.part": "0607"}))
            S.append(("rotate-after-flush/" + comp, base + " ".join(q(i, pad) for i in range(1, 4)) + " R:nm:1 " + q(5, pad) + " W R:nm:0 " + q(6, pad) + " D", {}))
    if not quick:
        for i in range(280):
            comp = rng.choice("ngx")
            toks = ["BP:tps=1000,max=%d" % rng.choice([1, 2, 5]), "X:nm:" + comp]
            for _ in range(rng.randrange(1, 12)):
                k = rng.random()
                toks.append(q(rng.randrange(100), rng.choice([5, 800, 3000])) if k < 0.6 else ("W" if k < 0.75 else "R:nm:%d" % rng.randrange(2)))
            toks.append("D")
            S.append(("random/" + comp, " ".join(toks), {}))
    return S


def is_temp(scenario, fname):
    """is this the name of a temporary file?  (the scenario whose output names themselves end in '.part': only '<name>.part.part')"""
    return fname.endswith(".part.part") if scenario.startswith("name-ends-in-part") else fname.endswith(".part")


def files_of(ans):
    part = ans.split(" | F")[-1] if " | F" in ans else ""
    out = {}
    for kv in part.split():
        n, _, h = kv.partition("=")
        out[n] = h
    return out


def canon_trace(t):
    out = []
    for e in t.strip(",").split(","):
        if not e:
            continue
        if e.startswith("w:"):
            name = e.split(":")[1]
            if not out or out[-1] != "w:" + name:
                out.append("w:" + name)
        else:
            out.append(e)
    return ",".join(out)


def merge_tool_section(run, seen, full, S, quick):
    """cdns-merge writes a named output too: its system calls (strace) must touch the final name only by the closing rename, and
    killing it before any of its output-related calls must leave the earlier file under that name intact"""
    import os, re, shutil, subprocess, tempfile
    if not shutil.which("strace"):
        run.count("merge tool: strace unavailable - section skipped"); return
    tools = vlib.build_cli_tools()
    env = dict(os.environ); env.update(vlib.SAN_ENV)
    ins = []
    for (name, sess, pre), ans in zip(S, full):
        if ans and ans.startswith("I") and name.endswith("/n"):
            for fname, content in files_of(ans).items():
                if not fname.endswith(".part") and content != "-" and pre.get(fname) != content and len(ins) < 3:
                    ins.append(bytes.fromhex(content))
    if len(ins) < 2:
        return
    tmp = tempfile.mkdtemp(prefix="c15m_", dir=vlib.CACHE)
    try:
        names = []
        for i, d in enumerate(ins):
            n = os.path.join(tmp, "in%d" % i); open(n, "wb").write(d); names.append(n)
        out = os.path.join(tmp, "out.cdns")
        old = ins[0]                                   # a complete earlier output under the final name
        def run_merge(extra):
            open(out, "wb").write(old)
            for leftover in (out + ".part",):
                if os.path.exists(leftover):
                    os.unlink(leftover)
            tr = os.path.join(tmp, "trace")
            p = subprocess.run(["strace", "-f", "-o", tr] + extra + [tools["cdns-merge"], "-o", out] + names, stdout=subprocess.PIPE, stderr=subprocess.PIPE,
                               text=True, errors="replace", env=env, timeout=120)
            return p, (open(tr).read() if os.path.exists(tr) else ""), (open(out, "rb").read() if os.path.exists(out) else None)
        calls = "openat,open,creat,rename,renameat,renameat2,unlink,unlinkat,truncate,write,writev,pwrite64"
        p, trace, merged = run_merge(["-y", "-e", "trace=" + calls])
        run.case(("merge-tool", "trace"), True); run.count("merge tool: traced run")
        case = "cdns-merge -o out.cdns in0 in1 ..  (out.cdns exists beforehand; inputs: %s)" % " ".join(d.hex()[:1500] for d in ins)
        if p.returncode != 0 or merged is None or merged == old:
            run.spec_fail.append(("merge-tool:baseline", case, {"exit": p.returncode, "stderr": p.stderr[-400:]})); return
        touched = []
        for l in trace.splitlines():
            m = re.search(r'\b(openat|open|creat|truncate|unlink|unlinkat)\((?:AT_FDCWD(?:<[^>]*>)?, )?"([^"]*)"(.*)', l)
            if m and m.group(2) == out:
                if m.group(1) in ("open", "openat") and not re.search(r"O_WRONLY|O_RDWR|O_TRUNC|O_CREAT", m.group(3)):
                    continue
                touched.append(l.strip()[:200])
            m = re.search(r'\b(write|writev|pwrite64)\(\d+<([^>]*)>', l)
            if m and m.group(2) == out:
                touched.append(l.strip()[:200])
        if touched and "merge-tool:final-name-touched" not in seen:
            seen.add("merge-tool:final-name-touched")
            run.spec_fail.append(("merge-tool:final-name-touched", case, {"why": "the final name is opened for writing / truncated / written before the closing rename",
                                                                       "system calls": touched[:6]}))
        n_calls = len([l for l in trace.splitlines() if re.search(r"\b(openat|rename|write|writev)\(", l) and out in l])
        # kill the tool immediately before its k-th call that names the output (open of the .part file, its writes, the rename)
        for k in range(1, n_calls + 1):
            p, _, found = run_merge(["-P", out, "-P", out + ".part", "-e", "trace=openat,rename,write,writev", "-e",
                                     "inject=openat,rename,write,writev:signal=SIGKILL:when=%d" % k])
            run.case(("merge-tool", "kill", k), True); run.count("merge tool: killed before its k-th output-related call")
            if found not in (old, merged):
                sig = "merge-tool:partial-final-file"
                if sig not in seen:
                    seen.add(sig)
                    run.spec_fail.append((sig, case + " ;; killed before output-related call %d" % k,
                                          {"k": k, "found bytes": None if found is None else len(found), "earlier file bytes": len(old), "complete merge bytes": len(merged),
                                           "why": "the file under the final name is neither the earlier one nor the complete merge"}))
    finally:
        shutil.rmtree(tmp, ignore_errors=True)


def check(run):
    run.lean()
    rng = run.rng
    quick = run.tier == "quick"
    run.rule = ("scenarios (plain/gzip/xz; single output, several rotations incl. empty ones, rotation onto an existing name, destruction "
                "with/without buffered data%s) x EVERY crash point k = 1..N and EVERY fault point k x {refused once, refused from then on, cut short} "
                "(N measured per scenario); distinct by (scenario, k[, fault kind])") % ("" if quick else ", 280 random scenarios")
    run.trusted += ["harness/os.cpp (write/writev/rename interposed; fclose not interposable - 'closed before rename' is read from /proc/self/fd at rename time)",
                    "Driver/Fs.lean", "rename(2) atomicity, no power loss (process death only)"]
    seen = set()
    S = scenarios(rng, quick)
    def pre_toks(pre):
        return " ".join(("PREDIR:%s" % k[4:]) if k.startswith("DIR:") else ("PRE:%s=%s" % (k, v)) for k, v in pre.items())
    full = run_os(["os full %s %s" % (pre_toks(pre), sess) for _, sess, pre in S])
    crash_lines, metas = [], []
    model_lines = []
    for (name, sess, pre), ans in zip(S, full):
        if ans is None or not ans.startswith("I"):
            run.spec_fail.append(("crash:baseline-crash", sess, {"implementation": (ans or "")[:300]})); model_lines.append(None); continue
        parts = ans.split(" | ")
        meta = dict(kv.split("=") for kv in parts[2].split())
        n = int(meta["N"])
        trace = canon_trace(parts[3][2:] if parts[3].startswith("T ") else "")
        final = files_of(ans)
        # (1) trace vs model: outputs in order with their sizes
        outs_in_order = []
        for e in trace.split(","):
            if e.startswith("mv:"):
                src, dst = e[3:].split(":")[0].split(">")
                outs_in_order.append((dst, 1 if ("w:" + src) in trace.split(",") else 0))
        model_lines.append(("fs " + ",".join("%s:%d" % x for x in outs_in_order), trace, name, sess))
        for k in range(1, n + 1):
            crash_lines.append("os crash %d %s %s" % (k, pre_toks(pre), sess)); metas.append((name, sess, pre, final, k))
    # every file the uncrashed run leaves under a final name must itself be a complete valid output (or the pre-existing file)
    val_lines, val_meta = [], []
    for (name, sess, pre), ans in zip(S, full):
        if ans is None or not ans.startswith("I"):
            continue
        comp = name.split("/")[1]
        for fname, content in files_of(ans).items():
            if is_temp(name, fname) or pre.get(fname) == content or content == "-":
                continue
            data, err = E.decompress(content, comp)
            if data is None:
                if "final:undecodable" not in seen:
                    seen.add("final:undecodable"); run.spec_fail.append(("final:undecodable", "os full " + sess, {"file": fname, "why": err}))
            elif data:
                val_lines.append("cdns " + data.hex()); val_meta.append((name, sess, fname))
    if run.driver_ok and val_lines:
        for (name, sess, fname), lg in zip(val_meta, G.run_driver(val_lines)):
            run.case(("final-file", name, fname), True)
            if lg is None or lg.startswith("S invalid"):
                sig = "final:invalid-complete-file:" + name.split("/")[0]
                if sig not in seen:
                    seen.add(sig); run.spec_fail.append((sig, "os full " + sess, {"file": fname, "strict parser/validator": (lg or "")[:300]}))
    ml = [m for m in model_lines if m]
    mans = G.run_driver([m[0] for m in ml]) if run.driver_ok and ml else []
    for (line, trace, name, sess), a in zip(ml, mans):
        run.case(("trace", name), True)
        if "OPEN" in trace:
            if "trace:not-closed" not in seen:
                seen.add("trace:not-closed"); run.spec_fail.append(("trace:not-closed", sess, {"why": "the .part file was still open when it was renamed", "trace": trace[:600]}))
        elif a is not None and a[2:] != trace and len(run.model_fail) < 5:
            run.model_fail.append((line, {"implementation trace": trace[:600], "model trace": a[:600], "scenario": sess[:600]}))
    answers = run_os(crash_lines)
    for (name, sess, pre, final, k), ans in zip(metas, answers):
        run.case((name, k), True)
        run.count(name.split("/")[0])
        if ans is None or not ans.startswith("I"):
            sig = "crash:harness:" + name
            if sig not in seen:
                seen.add(sig); run.spec_fail.append((sig, "os crash %d %s" % (k, sess), {"implementation": (ans or "")[:300]}))
            continue
        found = files_of(ans)
        for fname, content in found.items():
            if is_temp(name, fname):
                continue
            allowed = {pre.get(fname), final.get(fname)}
            if content not in allowed:
                sig = "crash:partial-final-file:" + name.split("/")[0]
                if sig not in seen:
                    seen.add(sig)
                    run.spec_fail.append((sig, "os crash %d %s %s" % (k, pre_toks(pre), sess),
                                          {"k": k, "file": fname, "found bytes": len(content) // 2, "complete bytes": len(final.get(fname, "")) // 2,
                                           "why": "a file under a final name is neither the pre-existing one nor the complete output"}))
    # (3) the same guarantee when the OS refuses data instead of the process dying: for every k the k-th write/writev (on
    # whichever output) fails once / from then on / is cut short; whatever is then found under a final name must be the
    # pre-existing file or a complete valid output (decompresses completely, passes the strict validator)
    flines, fmetas = [], []
    for (name, sess, pre), ans in zip(S, full):
        if ans is None or not ans.startswith("I"):
            continue
        n = int(dict(kv.split("=") for kv in ans.split(" | ")[2].split())["N"])
        for k in range(1, n + 1):
            for kind, persist in (("any-enospc", 0), ("any-enospc", 1), ("any-short", 0)):
                flines.append("os fault %d %s %d %s %s" % (k, kind, persist, pre_toks(pre), sess)); fmetas.append((name, sess, pre, k, kind, persist))
    fans = run_os(flines)
    vlines, vmeta = [], []
    fired_total = 0
    for (name, sess, pre, k, kind, persist), line, ans in zip(fmetas, flines, fans):
        if ans is None or not ans.startswith("I"):
            sig = "fault:harness:" + name
            if sig not in seen:
                seen.add(sig); run.spec_fail.append((sig, line, {"implementation": (ans or "")[:300]}))
            continue
        fired = int(dict(kv.split("=") for kv in ans.split(" | ")[2].split()).get("fired", 0))
        run.case((name, "fault", k, kind, persist), fired > 0)
        if not fired:
            continue
        fired_total += fired
        run.count("fault/" + name.split("/")[0])
        comp = name.split("/")[1]
        for fname, content in files_of(ans).items():
            if is_temp(name, fname) or content == "-" or pre.get(fname) == content:
                continue
            data, err = E.decompress(content, comp)
            if data is None:
                sig = "fault:partial-final-file:" + name.split("/")[0]
                if sig not in seen:
                    seen.add(sig)
                    run.spec_fail.append((sig, line, {"k": k, "kind": kind, "persistent": persist, "file": fname, "found bytes": len(content) // 2,
                                                      "why": "after a refused write a file under a final name is not a complete %s stream: %s" % (comp, err)}))
            elif data:
                vlines.append("cdns " + data.hex()); vmeta.append((name, line, fname, k, kind, persist))
    if run.driver_ok and vlines:
        uniq = sorted(set(vlines))
        verdict = dict(zip(uniq, G.run_driver(uniq)))
        for (name, line, fname, k, kind, persist), vl in zip(vmeta, vlines):
            lg = verdict.get(vl)
            if lg is None or lg.startswith("S invalid"):
                sig = "fault:partial-final-file:" + name.split("/")[0]
                if sig not in seen:
                    seen.add(sig)
                    run.spec_fail.append((sig, line, {"k": k, "kind": kind, "persistent": persist, "file": fname, "found bytes": (len(vl) - 5) // 2,
                                                      "why": "after a refused write a file under a final name is not a complete valid C-DNS file",
                                                      "strict parser/validator": (lg or "")[:300]}))
    run.extra["faults_fired"] = fired_total
    merge_tool_section(run, seen, full, S, quick)
    # (4) "complete" includes the closing break wherever it falls in the encoder's staging buffer: named outputs of every size
    # modulo the buffer, closed by rotation and by destruction, must be complete valid files holding the reference's records
    import refexp
    sweep = refexp.alignment_sweep(rng, range(0, 2101, 1 if not quick else 1), target="nm", compress="n", rotate=True)
    if not quick:
        sweep += refexp.alignment_sweep(rng, range(0, 2101), target="nm", compress="g", rotate=True)
    for s_, r_ in zip(sweep, E.run_sessions(run, sweep)):
        run.case(("alignment", s_[0][-200:]), True, key=s_[0]); run.count("alignment sweep (named outputs)")
        E.record_failures(run, s_, E.judge_files(s_, r_), seen)
    run.exhaustive = True
    run.extra["exhaustive_over"] = "crash points k = 1..N and fault points k = 1..N x {refused once, refused from then on, cut short} of every scenario"


def replay(run, data):
    run.lean()
    for f in data.get("failures", []):
        a = run_os([f["case"]])[0]
        print(f["case"][:300]); print("  ->", (a or "")[:400])
    return 0
