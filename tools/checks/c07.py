"""C07 — decoder accepts every well-formed encoding and skips exactly one item.
Proof: Props/C07.lean (+ C05.runW_refines for window independence).
Tie: real CdnsDecoder vs window model; spec oracle = generator ground truth (RFC 8949 value of the item)."""
import vlib, cborgen
from checks.common import pair

I64MAX = 2**63 - 1
WIN = 65535


def hexs(b):
    return b.hex() if b else "-"


def plan(rng, it):
    """(ops, expected results) that read `it` with its matching read operation, or skip it"""
    k = it.kind
    mode = rng.random()
    if mode < 0.45 or k in ("tag", "simple", "simple1", "f16", "f32", "f64"):
        return ["sk"], ["ok"], "skip:" + k
    if k == "uint":
        if rng.random() < 0.5 or it.value > I64MAX:
            return ["ru"], [str(it.value)], "read:uint"
        return ["ri"], [str(it.value)], "read:int+"
    if k == "nint":
        if it.value < -2**63:
            return ["rn"], [str(-2**63)], "read:nint-saturate"
        return [rng.choice(["rn", "ri"])], [str(it.value)], "read:nint"
    if k == "bool":
        return ["rb"], ["true" if it.value else "false"], "read:bool"
    if k in ("bstr", "bstrI"):
        return ["rbs"], [hexs(it.value)], "read:" + k
    if k in ("tstr", "tstrI"):
        return ["rts"], [hexs(it.value)], "read:" + k
    if k in ("arr", "map"):
        op = "ras" if k == "arr" else "rms"
        n = len(it.children)
        return [op] + ["sk"] * n, ["%d/false" % it.value] + ["ok"] * n, "start:" + k
    if k in ("arrI", "mapI"):
        op = "ras" if k == "arrI" else "rms"
        n = len(it.children)
        return [op] + ["sk"] * n + ["rbk"], ["0/true"] + ["ok"] * n + ["ok"], "start:" + k
    return ["sk"], ["ok"], "skip:" + k


def prefix_for(start):
    """P segment whose encoding is exactly `start` bytes long (start >= 1)"""
    if start == 0:
        return None
    for hl in (1, 2, 3, 5, 9):
        n = start - hl
        if n >= 0 and cborgen.head(2, n).__len__() == hl:
            return "P%d:%d" % (n, n % 251)
    raise ValueError(start)


def mk(kind, it, ops, exp, sentinel, start):
    segs = []
    pre_ops, pre_exp = [], []
    if start:
        p = prefix_for(start)
        segs.append(p)
        pre_ops, pre_exp = ["rbs#"], [None]
    segs.append(it.enc.hex())
    segs.append(cborgen.head(0, sentinel).hex())
    line = "dec %s %s %s" % (kind, "+".join(segs), ",".join(pre_ops + ops + ["ru", "pk"]))
    return line, pre_exp + exp + [str(sentinel), "E:end"]


def check(run):
    run.lean()
    rng = run.rng
    quick = run.tier == "quick"
    run.rule = ("well-formed items drawn from the full RFC 8949 grammar (non-preferred widths, chunked strings, nesting, tags, "
                "floats, simple), each followed by a sentinel uint that must be read next and then end-of-input; read with the "
                "matching read_* or skip_item; placed at offset 0 and so that each of its bytes in turn falls on a multiple of "
                "the 65535-byte window; distinct by (encoding, ops, offset); all non-trivial")
    run.trusted += ["translator T1", "harness/dec.cpp, Driver/Dec.lean", "python generator ground truth (tools/cborgen.py) as RFC 8949 value oracle"]
    cases = []
    n_plain = 5000 if quick else 200000
    for i in range(n_plain):
        it = cborgen.g_item(rng, depth=rng.choice([0, 1, 2, 4, 6]))
        ops, exp, tag = plan(rng, it)
        sent = rng.choice([rng.randrange(24), rng.randrange(2**32), 1000])
        line, e = mk(rng.choice(["s", "s", "f"]), it, ops, exp, sent, 0)
        cases.append((line, e, tag + "@0"))
    # window offsets: every byte of the item on the boundary, +-4
    n_off = 120 if quick else 3000
    for i in range(n_off):
        it = cborgen.g_item(rng, depth=rng.choice([0, 1, 2, 3]), maxlen=12)
        ops, exp, tag = plan(rng, it)
        sent = rng.randrange(2**16)
        k = rng.choice([1, 1, 2])
        for j in range(-3, len(it.enc) + 5):
            start = WIN * k - j
            line, e = mk("s" if i % 3 else "f", it, ops, exp, sent, start)
            cases.append((line, e, tag + "@win"))
    # deep nesting
    for depth in ([50, 200, 1000] if quick else [50, 200, 1000, 20000, 200000]):
        for indef in (False, True):
            it = cborgen.nested(depth, indef)
            line, e = mk("s", it, ["sk"], ["ok"], 7, 0)
            cases.append((line, e, "skip:deep%d" % depth))
    for depth in ([1000, 300000] if quick else [1000, 300000, 4000000]):
        line, e = mk("s", cborgen.nested_tags(depth), ["sk"], ["ok"], 9, 0)
        cases.append((line, e, "skip:deeptags%d" % depth))
    # int64 boundary saturation (documented API limit; model-only expectation)
    for n, w in ((2**63, "w8"), (2**64 - 1, "w8")):
        it = cborgen.g_uint(rng, n, w)
        line, e = mk("s", it, ["ri"], [str(I64MAX)], 3, 0)
        cases.append((line, e, "read:int-saturate"))
    # malformed stream (model-vs-implementation only): every head byte under every read operation, with random tails –
    # reserved additional-information values, wrong major types, stop codes where none may be, truncated arguments,
    # chunks of the wrong type / of indefinite length inside an indefinite string, an indefinite map ending after a key
    mal = []
    for op in ("ru", "rn", "ri", "rb", "rbs", "rts", "ras", "rms", "rbk", "sk"):
        for hb in range(256):
            for t in range(2 if quick else 12):
                tail = bytes(rng.randrange(256) for _ in range(rng.choice([0, 1, 2, 4, 9, 20])))
                mal.append("dec s %s %s,pk" % ((bytes([hb]) + tail).hex(), op))
    for body in ("5f4161ff", "5f6161ff", "5f5f4161ffff", "7f6161ff", "7f4161ff", "7f7f6161ffff", "bf01ff", "bf0102ff", "bf0102", "9f01", "5f41",
                 "5f", "7f", "bf", "9f", "5fff", "7fff", "c0", "c1c2c301", "d8", "f8", "f818", "f820", "fc", "fd", "fe", "1c", "3d", "5e", "7c", "9d", "be", "dc"):
        for op in ("sk", "rbs", "rts", "ras", "rms"):
            mal.append("dec s %s %s,pk" % (body, op))
    mimpl, mmodel = pair(run, "dec", mal)
    for line, i, m in zip(mal, mimpl, mmodel):
        run.case(line, True)
        run.count("malformed:" + line.split()[-1].split(",")[0])
        if i is None or not i.startswith("I "):
            sig = "dec:crash:malformed:" + line.split()[-1].split(",")[0]
            if not any(f[0] == sig for f in run.spec_fail):
                run.spec_fail.append((sig, line, {"implementation": i}))
        elif m is not None and m[2:] != i[2:] and len(run.model_fail) < 20:
            run.model_fail.append((line, {"implementation": i[:400], "model": m[:400]}))
    lines = [c[0] for c in cases]
    impl, model = pair(run, "dec", lines)
    seen = set()
    for (line, exp, tag), i, m in zip(cases, impl, model):
        run.case(line if len(line) < 200 else line[:90] + "…" + line[-80:], True)
        run.count(tag)
        if i is None or not i.startswith("I "):
            sig = "dec:crash:" + tag.split("@")[0]
            if sig not in seen:
                seen.add(sig); run.spec_fail.append((sig, line, {"implementation": i}))
            continue
        got = i[2:].split(";")
        ok = len(got) == len(exp) and all(e is None or e == g for e, g in zip(exp, got))
        if not ok:
            sig = "dec:" + tag.split("@")[0]
            if sig not in seen:
                seen.add(sig)
                run.spec_fail.append((sig, line, {"implementation": i[:400], "expected(RFC 8949)": ";".join("*" if e is None else e for e in exp)[:400]}))
        elif m is not None and m[2:] != i[2:]:
            run.model_fail.append((line, {"implementation": i[:400], "model": m[:400]}))
    run.model_fail = run.model_fail[:20]


def replay(run, data):
    run.lean()
    cases = [f["case"] for f in data.get("failures", [])] + [c["case"] for c in data.get("correspondence_breaks", [])]
    impl, model = pair(run, "dec", cases)
    for l, i, m in zip(cases, impl, model):
        print(l[:300]); print("  impl :", i[:300]); print("  model:", (m or "")[:300])
    return 0
