"""C08 — reading is invariant under equivalent re-encoding and ignores unknown members.
Proof: Props/C08.lean (decoder-level invariance, skip of unknown values, key saturation).
Decision on the implementation: exporter-produced files are rewritten by random compositions of the semantics-preserving
rewrites {definite<->indefinite per container/string, chunking, head widening, map-member permutation, unknown integer keys
(positive, negative, beyond int64) with arbitrary well-formed values}; the library reader must return the same dump for the
rewritten file as for the original; the independent Lean reader cross-checks that the rewrite preserved the denotation."""
import vlib, cdnsgen as G, cborgen, refexp, expcheck as E, foreign


def check(run):
    run.lean()
    rng = run.rng
    quick = run.tier == "quick"
    run.rule = ("files from random exporter sessions x k random rewrites each (see module doc) at random node subsets; oracle: reader "
                "dump(original) == reader dump(rewritten); distinct by rewritten bytes; non-trivial = rewritten bytes differ from the original")
    run.trusted += ["harness/file.cpp", "tools/cborgen.py parse/encode (rewrites)", "Spec/Cdns.lean (cross-check that the rewrite kept the denotation)"]
    nfiles, k = (600, 5) if quick else (20000, 20)
    sessions = [refexp.gen_session(rng, nops=rng.randrange(1, 20), maxes=[1, 2, 3, 100], simple_bp=rng.random() < 0.5,
                                   stats_p=0.4) for _ in range(nfiles)]
    res = E.run_sessions(run, sessions, need_lean=False)
    seen = set()
    lines, metas = [], []
    n_long = 0
    for s, r in zip(sessions, res):
        if r["results"] is None:
            continue
        for oi, (data, err) in enumerate(r["plain"]):
            if not data or not r["rd"].get(oi, "").endswith(" EOF"):
                continue
            orig = r["rd"][oi]
            try:
                top, end = cborgen.parse(data)
            except Exception as e:
                run.spec_fail.append(("reenc:unparsable-output", s[0][:2000], {"why": str(e)})); continue
            for j in range(k):
                p = rng.choice([0.05, 0.2, 0.5, 0.9])
                src = top
                if j == 0:
                    # RFC 8618 level rewrite: a table entry written twice, references spread over both copies (as other writers may do)
                    d2, nd = foreign.dup_table_entries(data, rng)
                    if nd:
                        src = cborgen.parse(d2)[0]
                elif j == 1:
                    # RFC 8618: an absent block-parameters-index means parameter set 0 - blocks of set 0 written without it
                    d2, nd = foreign.drop_block_parameters_index(data, rng)
                    if nd:
                        src = cborgen.parse(d2)[0]; run.count("rewrite: block-parameters-index of set 0 omitted")
                new = cborgen.encode(src, rng, p, cborgen.unknown_member if rng.random() < 0.7 else None)
                lines.append("rd %s %s" % (rng.choice(["s", "s", "f", "p"]), new.hex()))       # (p: a pipe fed while it is read - a stream that cannot seek)
                metas.append((orig, data, new))
            # an unknown member holding ONE long string - longer than what is left of the decoder's window, longer than a whole
            # window - at the end of the first block, read from a string stream, a file and a pipe
            blocks = top.children[2].children
            if blocks and 0xa0 <= data[blocks[0].start] < 0xb7 and n_long < (6 if quick else 60):
                b0 = blocks[0]
                for L in (70000, 140000):
                    payload = bytes((i * 7 + L) % 251 for i in range(L))
                    new = (data[:b0.start] + bytes([data[b0.start] + 1]) + data[b0.start + 1:b0.end] + b"\x18\x63" +
                           cborgen.head(rng.choice([2, 3]), L) + payload + data[b0.end:])
                    for kind in ("s", "f", "p"):
                        lines.append("rd %s %s" % (kind, new.hex())); metas.append((orig, data, new))
                    n_long += 1
    run.count("rewrite: unknown member with a string longer than a decoder window (string stream, file, pipe)", n_long)
    answers = G.run_rd(lines)
    lean = G.run_driver(["cdns " + l.split()[2] for l in lines]) if run.driver_ok else [None] * len(lines)
    # the MODEL of the struct reader (Model.Schema.readVal, the subject of C08.read_denotes) on the same rewritten files:
    # its preamble must be the one the library returns for the rewritten file
    sch = G.run_driver(["sch " + l.split()[2] for l in lines]) if run.driver_ok else [None] * len(lines)
    blk = G.run_driver(["blk " + l.split()[2] for l in lines]) if run.driver_ok else [None] * len(lines)
    # the MODEL of the read side of a block (Model.ReadBlock: tables, index resolution, time arithmetic – C08.records_invariant)
    rdq = G.run_driver(["rdq " + l.split()[2] for l in lines]) if run.driver_ok else [None] * len(lines)
    for (orig, data, new), a, lg, sm, bm, rq in zip(metas, answers, lean, sch, blk, rdq):
        run.case(new.hex()[:120], new != data)
        if rq is not None and a and a.startswith("I "):
            run.count("read-model: records of a rewritten file resolved by Model.ReadBlock")
            if not E.same_records(rq, a) and len(run.model_fail) < 5:
                run.model_fail.append(("rdq " + new.hex()[:4000], {"note": "Model.ReadBlock (CdnsBlockRead::read after the raw read + read_generic_*) differs from the library on a rewritten file",
                                       "model": (E.blocks_part(rq) or "")[:1000], "library": (E.blocks_part(a) or "")[:1000]}))
        if bm is not None and a and a.startswith("I F{") and a.endswith(" EOF"):
            run.count("schema-reader: whole rewritten file compared")
            if bm[2:].split(" #")[0] != a[2:] and len(run.model_fail) < 5:
                run.model_fail.append(("blk " + new.hex()[:4000], {"note": "model of the struct readers (readFile: preamble + blocks) differs from the library on a rewritten file",
                                       "model": bm[:1000], "library": a[:1000]}))
        if sm is not None and a and a.startswith("I F{"):
            impl_pre = a[2:].split(" ")[0]
            if (not sm.startswith("M ") or sm[2:].split(" #")[0] != impl_pre) and len(run.model_fail) < 5:
                run.model_fail.append(("sch " + new.hex()[:4000], {"note": "model of the struct reader (readVal filePreamble) differs from the library on a rewritten file",
                                       "model": sm[:800], "library": impl_pre[:800]}))
            run.count("schema-reader: rewritten preamble compared")
        if a != orig:
            # which class of rewrite? (for the signature) – look at what the reader reported
            kind = "crash" if (a or "").startswith("CRASH") else ("exception" if " E:" in (a or "")[-8:] else "different-records")
            # does the independent reader agree that the rewrite preserved the meaning?
            spec_same = lg is not None and lg[2:].split(" #")[0] == orig[2:]
            sig = "reenc:" + kind + (":spec-agrees-rewrite-is-equivalent" if spec_same else ":unconfirmed")
            if sig not in seen:
                seen.add(sig)
                run.spec_fail.append((sig, "rd s " + new.hex()[:8000], {"original file": data.hex()[:3000], "rewritten file": new.hex()[:6000],
                                      "reader(original)": orig[:1200], "reader(rewritten)": (a or "")[:1200], "independent reader(rewritten)": (lg or "")[:600]}))
        elif lg is not None and lg[2:].split(" #")[0] != orig[2:] and len(run.model_fail) < 5:
            run.model_fail.append(("cdns " + new.hex()[:4000], {"note": "library reader is invariant but the independent Lean reader differs", "independent reader": lg[:800], "library": orig[:800]}))


def replay(run, data):
    run.lean()
    for f in data.get("failures", []):
        a = G.run_rd([f["case"]])[0]
        print(f["case"][:200]); print("  ->", (a or "")[:1000])
    return 0
