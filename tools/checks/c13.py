"""C13 — rotation yields self-contained files and loses, repeats or reorders nothing.
Proof: Props/C13.lean (+ C12 conservation) over Model/Exporter.lean.  Tie: sessions with rotations to names and descriptors,
with/without export, consecutive empty rotations, late parameter sets, all compression modes; every output decompressed and
read by the library reader and by the independent Lean reader; compared with the reference and with the Lean exporter model."""
import vlib, cdnsgen as G, refexp, expcheck as E


def check(run):
    run.lean()
    rng = run.rng
    quick = run.tier == "quick"
    run.rule = ("random sessions over buffer_*/write_block/rotate_output(new name|name of the open output|fd, export 0/1)/add_block_parameters/set_active, "
                "compression none/gzip/xz; per output: zero bytes if no block, else complete file whose preamble holds every "
                "parameter set its blocks use and whose records are the reference's; distinct by session text; non-trivial = has a rotation")
    run.trusted += ["harness/file.cpp", "Driver/Exm.lean, Spec/Cdns.lean", "tools/refexp.py", "python gzip/lzma"]
    n = 3000 if quick else 100000
    sessions = []
    for i in range(n):
        s = refexp.gen_session(rng, rotations=True, late_bps=True, compress=rng.choice(["n", "n", "g", "x"]),
                               target=rng.choice(["fd", "nm"]), maxes=[0, 1, 2, 3, 5], nops=rng.randrange(2, 40),
                               end_flush=rng.random() < 0.8, same_name_p=0.25)
        sessions.append(s)
    # consecutive rotations with nothing written
    for i in range(50):
        fp = {"maj": 1, "min": 0}
        bps = [G.gen_bp(rng, maxb=2)]
        ops = [("R", "fd", rng.randrange(2)) for _ in range(rng.randrange(1, 5))] + [("Q", {"cport": 1}, None)] + \
              [("R", "fd", 1), ("R", "fd", 0), ("R", "fd", 1)]
        sessions.append(refexp.make_session(fp, bps, ops, target="fd", compress=rng.choice(["n", "g", "x"])))
    # every alignment of the closing break / header relative to the encoder's staging buffer
    sessions += refexp.alignment_sweep(rng, range(0, 2101), rotate=True)
    res = E.run_sessions(run, sessions)
    # (sessions with an application-built block are outside the abstract exporter model: no request, no comparison)
    model = G.run_driver([s[1].abstract or "exm" for s in sessions]) if run.driver_ok else [None] * len(sessions)
    model = [m if s[1].abstract else None for s, m in zip(sessions, model)]
    seen = set()
    for s, r, m in zip(sessions, res, model):
        nrot = s[0].count(" R:")
        run.case(s[0][:300], nrot > 0, key=s[0])
        run.count("rotations:%d" % min(nrot, 5)); run.count("compression:" + r["comp"])
        run.count("rotations to the name of the open output", s[0].count(" R:same:"))
        bad = E.judge_returns(s, r) + E.judge_files(s, r)
        E.record_failures(run, s, bad, seen)
        if not bad and m is not None:
            want = refexp.expected_model_answer(s[1], s[2])
            if m.strip() != want.strip() and len(run.model_fail) < 10:
                run.model_fail.append((s[1].abstract, {"model": m[:800], "reference(=implementation)": want[:800]}))


def replay(run, data):
    run.lean()
    for f in data.get("failures", []):
        ans = G.run_exp([f["case"]])[0]
        print(f["case"][:500]); print("  ->", (ans or "")[:1000])
    return 0
