"""C03 — reading untrusted bytes is memory-safe, bounded and fails only by exception.
Proof: Props/C03.lean (per-layer bounds: window, allocation requests, timestamp arithmetic, renderer indices, iterative skip).
Failing-input search on the implementation: valid files, structure-aware mutations (length fields up to 2^64-1, out-of-range
indices, nesting bombs, wrong major types, truncation, boundary integers, malformed names/addresses), byte-level mutations and
raw random bytes are run through the whole read side (reader, record accessors, every string() renderer, block copies)
in-process under ASan+UBSan with an allocation cap and an alarm, and through the five command-line tools as subprocesses."""
import os, random, shutil, subprocess, tempfile, concurrent.futures as cf
import vlib, cdnsgen as G, cborgen, refexp, expcheck as E

# the largest single allocation request while one input is read: at most the decoder window / stream buffers (slack) plus a
# multiple of the input length (containers of decoded items grow by doubling; one decoded item is a few hundred bytes)
ALLOC_SLACK = 1 << 20
ALLOC_FACTOR = 256

BIG = [2**64 - 1, 2**63, 2**63 - 1, 2**32, 2**32 - 1, 2**31, 65536, 65535, 256, 255, 24, 23, 1, 0]


def mutate_tree(rng, n):
    """in-place random structural mutation of a parsed tree; returns True if something changed"""
    nodes = []
    def walk(x):
        nodes.append(x)
        for c in x.children:
            walk(c)
    walk(n)
    x = rng.choice(nodes)
    k = rng.randrange(8)
    if k == 0 and x.major in (0, 1):
        x.arg = rng.choice(BIG) if rng.random() < 0.6 else rng.randrange(0, 300)      # boundary integers and small out-of-range codes
    elif k == 1 and x.major in (0, 1):
        x.major = 1 - x.major
    elif k == 2 and x.major in (2, 3) and not x.indef:
        x.data = bytes(rng.randrange(256) for _ in range(rng.choice([0, 1, 3, 4, 5, 15, 16, 17, 20, 64, 300])))
    elif k == 3 and x.major in (2, 3):
        # domain-name / address shaped payloads
        L = rng.choice([1, 2, 20, 63, 64, 255])
        x.data = bytes([L]) + bytes(rng.choice([L, 0, 65, 255]) for _ in range(rng.choice([0, L - 1, L, L + 1, 19])))
    elif k == 4 and x.major in (4, 5) and x.children:
        rng.shuffle(x.children)
    elif k == 5 and x.major in (4, 5) and x.children:
        del x.children[rng.randrange(len(x.children))]
    elif k == 6 and x.major in (0, 1, 2, 3):
        x.major = rng.choice([0, 1, 2, 3]); x.data = x.data or b""
        if x.arg is None:
            x.arg = 0
    else:
        return False
    return True


LIES = BIG[:8] + [2**62, 2**40, 2**30, 2**27, 2**24, 2**22]


def lie_about_length(rng, data):
    """overwrite one head so that it announces a huge length/count/value"""
    b = bytearray(data)
    for _ in range(20):
        i = rng.randrange(len(b))
        m, ai = b[i] >> 5, b[i] & 31
        if m in (2, 3, 4, 5) and ai <= 27:
            v = rng.choice(LIES)
            return bytes(b[:i]) + cborgen.head(m, v, "w8") + bytes(b[i + 1 + {24: 1, 25: 2, 26: 4, 27: 8}.get(ai, 0):])
    return bytes(b)


def field_boundaries(data, values, majors=(0, 1)):
    """every numeric field of a valid file set to each boundary value (one field at a time)"""
    tree = cborgen.parse(data)[0]
    ints = []
    def walk(x):
        if x.major in (0, 1):
            ints.append(x)
        for c in x.children:
            walk(c)
    walk(tree)
    for n in ints:
        for v in values:
            for mj in majors:
                yield data[:n.start] + cborgen.head(mj, v) + data[n.end:]


def string_fields(data, payloads):
    """every byte/text string of a valid file replaced by each hostile payload (one string at a time): printf directives,
    embedded NULs, terminal escapes, over-long labels - whatever ends up in a renderer's or a tool's output path"""
    tree = cborgen.parse(data)[0]
    strs = []
    def walk(x):
        if x.major in (2, 3) and not x.indef:
            strs.append(x)
        for c in x.children:
            walk(c)
    walk(tree)
    for n in strs:
        for pl in payloads:
            yield data[:n.start] + cborgen.head(n.major, len(pl)) + pl + data[n.end:]


HOSTILE_STRINGS = [b"%s%s%s%s%s%s%s%s%n%n", b"%999999999d%n", b"A%x%x%x%x%x%x%x%x%x%x%x%x%sZ", b"\x00mid\x00", b"\x1b[2J\xff\xfe", b"\x3f" + b"a" * 70,
                   b"%" * 300]


def byte_mutate(rng, data):
    b = bytearray(data)
    for _ in range(rng.choice([1, 1, 2, 5])):
        k = rng.randrange(4)
        if not b:
            b.append(rng.randrange(256)); continue
        i = rng.randrange(len(b))
        if k == 0:
            b[i] = rng.randrange(256)
        elif k == 1:
            b[i] ^= 1 << rng.randrange(8)
        elif k == 2:
            del b[i]
        else:
            b.insert(i, rng.choice([0xff, 0x9f, 0xbf, 0x5f, 0x7f, 0x1b, 0x3b, 0x5b, 0x9b, 0xbb, 0xdb, rng.randrange(256)]))
    return bytes(b)


VALID_HEAD = bytes.fromhex("8365432d444e53a30001010003") + bytes.fromhex("81a100a5001903e8010a02a4001a0003ffff011a0001ffff0203030303800480") + b"\x9f"


def table_floods(rng, n):
    """(name, crafted file, control file): one block whose table holds n distinct entries that are as alike as entries can be
    (equal length and a long common prefix / suffix, or one varying member), and a control of the same size and shape with
    unrelated entries.  Reading either must cost about the same: the reader indexes every table entry it decodes."""
    def one_block(table_key, entries):
        return (VALID_HEAD + b"\xa2\x00\xa1\x00\x82\x00\x00\x02\xa1" + bytes([table_key]) + cborgen.head(4, len(entries)) + b"".join(entries) + b"\xff")
    def bstr(b):
        return cborgen.head(2, len(b)) + b
    L = 72
    ctr = [i.to_bytes(4, "big") for i in range(n)]
    rnd = set()
    while len(rnd) < n:
        rnd.add(bytes(rng.randrange(256) for _ in range(L)))
    control_s = [bstr(x) for x in sorted(rnd)]
    shapes = {"common 40-byte prefix": [b"a" * 40 + c + b"z" * (L - 44) for c in ctr],
              "common 64-byte prefix": [b"a" * 64 + c + b"z" * (L - 68) for c in ctr],
              "common 68-byte suffix": [c + b"z" * (L - 4) for c in ctr],
              "differ in bytes 30..33": [b"a" * 30 + c + b"z" * (L - 34) for c in ctr]}
    out = []
    for tk, tn in ((0, "ip_address"), (2, "name_rdata")):
        for name, es in shapes.items():
            out.append(("%s table, %d entries: %s" % (tn, n, name), one_block(tk, [bstr(e) for e in es]), one_block(tk, control_s)))
    def m(*kv):
        return cborgen.head(5, len(kv) // 2) + b"".join(cborgen.head(0, x) for x in kv)
    pairs = set()
    while len(pairs) < n:
        pairs.add((rng.randrange(65536), rng.randrange(65536)))
    control_ct = [m(0, a, 1, b) for a, b in sorted(pairs)]
    out.append(("classtype table, %d entries: class fixed, type counts up" % n, one_block(1, [m(0, i, 1, 1) for i in range(n)]), one_block(1, control_ct)))
    out.append(("classtype table, %d entries: type fixed, class counts up" % n, one_block(1, [m(0, 1, 1, i) for i in range(n)]), one_block(1, control_ct)))
    control_rr = [m(0, a, 1, b, 2, rng.randrange(2**31)) for a, b in sorted(pairs)]
    out.append(("rr table, %d entries: only the ttl varies" % n, one_block(7, [m(0, 0, 1, 0, 2, i) for i in range(n)]), one_block(7, control_rr)))
    out.append(("question table, %d entries: only the name index varies" % n, one_block(5, [m(0, i, 1, 0) for i in range(n)]), one_block(5, [m(0, a, 1, b) for a, b in sorted(pairs)])))
    return out


def bombs(quick=False):
    out = []
    for n in ((1000, 150000) if quick else (1000, 100000, 400000)):
        out.append(b"\x81" * n + b"\x01")
        out.append(b"\x9f" * n)
        out.append(b"\xc1" * n + b"\x01")
        out.append(b"\xbf" + b"\x00\x9f" * (n // 2))
        out.append(b"\x5f" + b"\x40" * n + b"\xff")
    for n in ((150000,) if quick else (100000, 3000000)):
        out.append(b"\x5f" * n); out.append(b"\x7f" * n)             # string starts nested as deep as the input is long
        out.append(b"\x5f" * n + b"\xff" * n); out.append(b"\x7f" * n + b"\x60" + b"\xff" * n)
    hdr = bytes.fromhex("8365432d444e53")
    out += [hdr + b for b in out[:6]] + [hdr + b"\xa0" + b for b in out[:6]]
    out += [hdr + b for b in out[10:14]] + [hdr + b"\xa1\x18\x63" + b for b in out[10:14]]
    # files that hold a valid preamble and no block at all (definite and indefinite block array)
    out.append(VALID_HEAD[:-1] + b"\x80"); out.append(VALID_HEAD + b"\xff")
    # skip_item reached through an unknown preamble key
    deep = 250000 if quick else 4000000
    for opener, closer in ((b"\x81", b"\x01"), (b"\x9f", b""), (b"\xc1", b"\x00"), (b"\xa1\x00", b"\x00"), (b"\xbf\x00", b""),
                           (b"\xc1\x81", b"\x00"), (b"\xd8\x20\x9f", b"")):
        out.append(hdr + b"\xa1\x18\x63" + opener * deep + closer)          # skipped as the value of an unknown preamble key
    # ... and as an unknown member of a block of an otherwise valid file
    valid_head = VALID_HEAD
    out.append(valid_head + b"\xa2\x00\xa1\x00\x82\x00\x00\x18\x64" + b"\xc1" * deep + b"\x00" + b"\xff")
    out.append(bytes.fromhex("5b0000010000000000")); out.append(hdr + bytes.fromhex("a1187b5b0000010000000000"))
    # chunked strings whose chunk head announces far more than the input holds: read directly, as the file type id, as a
    # preamble member that is skipped, and as a table string of a block
    for lie in ("5a01000000", "5a40000000", "5b0000010000000000", "5b4000000000000000", "5bffffffffffffffff"):
        for major in (0x40, 0x60):
            chunked = bytes([major | 0x1f]) + bytes([major | 1, 0x61]) + bytes([major | int(lie[:2], 16) & 0x1f]) + bytes.fromhex(lie[2:]) + b"ab"
            out.append(chunked)
            out.append(b"\x83" + chunked)
            out.append(hdr + b"\xa1\x18\x63" + chunked)
            out.append(valid_head + b"\xa2\x00\xa1\x00\x82\x00\x00\x02\xa1\x00\x81" + chunked)
    return out


def run_tools(tools, files, seen, run, quick):
    """each tool on each file as a subprocess; a signal, sanitizer report or timeout is a failure"""
    env = dict(os.environ); env.update(vlib.SAN_ENV)
    jobs = []
    for fi, path in enumerate(files):
        for t in ("cdns-blocks", "cdns-items", "cdns-itemcount", "cdns-preamble"):
            jobs.append((t, [path]))
        # every option of every tool (on every third file in the quick tier)
        if not quick or fi % 3 == 0 or fi < 40:
            jobs += [("cdns-preamble", ["-b", path]), ("cdns-itemcount", ["-b", path]), ("cdns-itemcount", ["-p", path]),
                     ("cdns-itemcount", ["-b", "-p", path]), ("cdns-blocks", ["-n", "0", path]), ("cdns-blocks", ["-n", "1", path]),
                     ("cdns-items", ["-q", path]), ("cdns-items", ["-a", path]), ("cdns-items", ["-m", path]),
                     ("cdns-items", ["-n", "0", path]), ("cdns-items", ["-n", "1-3", path])]
        jobs.append(("cdns-merge", ["-o", path + ".out", path, path]))
    def one(j):
        t, args = j
        try:
            p = subprocess.run([tools[t]] + args, stdout=subprocess.DEVNULL, stderr=subprocess.PIPE, text=True, errors="replace", env=env, timeout=60)
            return t, args, p.returncode, p.stderr[-800:]
        except subprocess.TimeoutExpired:
            return t, args, "timeout", ""
    with cf.ThreadPoolExecutor(vlib.NCPU) as ex:
        for t, args, rc, err in ex.map(one, jobs):
            run.count("tool:" + t)
            bad = rc == "timeout" or (isinstance(rc, int) and (rc < 0 or rc > 2)) or "Sanitizer" in err or "runtime error" in err
            if bad:
                sig = "tool:%s:%s" % (t, "timeout" if rc == "timeout" else ("sanitizer" if "anitizer" in err or "runtime error" in err else "signal"))
                if sig not in seen:
                    seen.add(sig)
                    data = open(args[-1], "rb").read()
                    run.spec_fail.append((sig, "%s <file:%s>" % (t, data.hex()[:6000]), {"exit": rc, "stderr": err[-600:]}))


def check(run):
    run.lean()
    rng = run.rng
    quick = run.tier == "quick"
    run.rule = ("inputs: corpus of repaired defects, valid exporter files, structure-aware mutations of them (tree edits, lying length "
                "heads up to 2^64-1, truncation), byte-level mutations, nesting bombs up to 400k levels, raw random bytes; each run through "
                "reader + accessors + renderers in-process under ASan/UBSan (allocation cap 1 GiB, 20 s alarm) and a sample through the "
                "5 CLI tools; distinct by input bytes; non-trivial = every input except raw random bytes (results distribution is in 'distribution')")
    run.trusted += ["AddressSanitizer / UBSan (alignment check excluded, see DESIGN.md)", "harness/fz.cpp covers the read-side entry points it calls",
                    "tools built from src/bin with sanitizers"]
    seen = set()
    inputs = []
    for l in open(os.path.join(vlib.VERIF, "corpus", "C03", "known.txt")):
        l = l.strip()
        if l and not l.startswith("#"):
            inputs.append(("corpus", bytes.fromhex(l)))
    sessions = [refexp.gen_session(rng, nops=rng.randrange(1, 30), maxes=[1, 2, 3, 50], simple_bp=rng.random() < 0.5, stats_p=0.3)
                for _ in range(150 if quick else 3000)]
    res = E.run_sessions(run, sessions, need_rd=False, need_lean=False)
    valid = []
    for s, r in zip(sessions, res):
        if r["results"] is None:
            continue
        for data, err in r["plain"]:
            if data:
                valid.append(data)
    n_mut = 12000 if quick else 250000
    for v in valid[:300]:
        inputs.append(("valid", v))
    trees = []
    for v in valid[:200 if quick else 3000]:
        try:
            trees.append((v, cborgen.parse(v)[0]))
        except Exception:
            pass
    # boundary integers in every numeric field of a few small valid files (with records)
    small = sorted(set(v for v in valid if 120 <= len(v)), key=len)
    fb_tools = []
    for fi, v in enumerate(small[:3] if quick else small[:40]):
        for d in field_boundaries(v, (0, 1, 2**31, 2**32 - 1, 2**63 - 1, 2**63, 2**64 - 1)):
            inputs.append(("field-boundary", d))
    for v in (small[:1] + small[len(small) // 2:len(small) // 2 + 1] if quick else small[:12]):
        fb_tools += list(field_boundaries(v, (0, 2**63, 2**64 - 1), majors=(0,)))
    # hostile contents in every string of a few files with many members (reader, renderers and tools)
    rich = sorted(set(valid), key=lambda v: -v.count(b"\x03www"))[:(3 if quick else 25)] + small[:2]
    for v in rich:
        for d in string_fields(v, HOSTILE_STRINGS):
            inputs.append(("hostile-string", d))
            if len(fb_tools) < (4000 if quick else 60000):
                fb_tools.append(d)
    # ONE very long string (12 MiB: longer than the default 8 MiB stack) in the place of each of the first strings of a file -
    # an address, a name, RDATA, a payload, a text member: nothing may size a stack object by it (reader, renderers, tools)
    HUGE = b"\x07" * (12 * 1024 * 1024 + 1)
    for v in rich[:1]:
        for k, d in enumerate(string_fields(v, [HUGE])):
            if k >= (10 if quick else 16):
                break
            inputs.append(("huge-string", d)); fb_tools.append(d)
    # valid files that are large along one dimension: index lists of more than 65536 entries, byte strings of 12 MiB
    for r in E.run_sessions(run, E.scale_sessions()[1:], need_rd=False, need_lean=False):
        for data, err in (r["plain"] or []):
            if data:
                inputs.append(("scale", data)); fb_tools.append(data)
    import copy
    while len(inputs) < n_mut:
        k = rng.random()
        v, t = rng.choice(trees)
        if k < 0.35:
            t2 = copy.deepcopy(t)
            for _ in range(rng.choice([1, 1, 2, 4])):
                mutate_tree(rng, t2)
            try:
                inputs.append(("tree", cborgen.encode(t2, rng, rng.choice([0, 0.1]))))
            except Exception:
                inputs.append(("byte", byte_mutate(rng, v)))
        elif k < 0.5:
            inputs.append(("length-lie", lie_about_length(rng, v)))
        elif k < 0.55:
            try:
                inputs.append(("length-lie-chunked", lie_about_length(rng, cborgen.encode(t, rng, 0.5))))
            except Exception:
                inputs.append(("length-lie", lie_about_length(rng, v)))
        elif k < 0.7:
            inputs.append(("truncate", v[:rng.randrange(len(v) + 1)]))
        elif k < 0.93:
            inputs.append(("byte", byte_mutate(rng, v)))
        else:
            inputs.append(("random", bytes(rng.randrange(256) for _ in range(rng.choice([0, 1, 8, 40, 300])))))
    for b in bombs(quick):
        inputs.append(("bomb", b))
    exe = vlib.build_harness("asan")
    lines = ["fz " + (d.hex() or "-") for _, d in inputs]
    ans = vlib.run_lines([exe, "fz"], lines, timeout=1800, min_chunk=256)
    worst_alloc = 0
    for (kind, d), a in zip(inputs, ans):
        run.count("input:" + kind)
        ok = a is not None and a.startswith("I ")
        run.case((len(d), d[:24].hex(), hash(d)), kind != "random")
        if ok:
            a, _, alloc = a.partition(" A")
            largest = int((alloc or "0").split(" ")[0])
            run.count("result:" + a[2:].split(":")[0] + (":" + a[2:].split(":")[1] if a.startswith("I exc") else ""))
            worst_alloc = max(worst_alloc, (largest - ALLOC_SLACK) / max(1, len(d)))
            if largest > ALLOC_SLACK + ALLOC_FACTOR * len(d):
                sig = "read:allocation-not-proportional"
                if sig not in seen:
                    seen.add(sig)
                    run.spec_fail.append((sig, "fz " + d.hex()[:20000], {"input kind": kind, "bytes": len(d), "largest single allocation request": largest,
                                          "bound": "%d + %d x input length" % (ALLOC_SLACK, ALLOC_FACTOR)}))
            continue
        summary = (a or "no answer")
        cls = "asan" if "AddressSanitizer" in summary else ("ubsan" if "runtime error" in summary else ("timeout" if "TIMEOUT" in summary or "alarm" in summary.lower() else "signal"))
        import re as _re
        m = _re.search(r"AddressSanitizer: ([a-zA-Z-]+)|runtime error: ([a-z -]+)", summary)
        what = (m.group(1) or m.group(2)).strip().replace(" ", "-")[:40] if m else cls
        sig = "read:%s:%s" % (cls, what)
        if sig not in seen:
            seen.add(sig)
            run.spec_fail.append((sig, "fz " + d.hex()[:20000], {"input kind": kind, "bytes": len(d), "implementation": summary[:400]}))
    run.extra["largest allocation request minus slack, per input byte (worst)"] = round(worst_alloc, 2)
    # hostile files against the MODEL of the read side of a block (Model.ReadBlock: parameter-set selection, time arithmetic,
    # bounds-checked index resolution): same records before the first exception, and an exception exactly where the model has one
    if run.driver_ok:
        cand = [(k, d) for k, d in inputs if k in ("field-boundary", "tree", "valid", "hostile-string") and 0 < len(d) < 20000]
        step = max(1, len(cand) // (2500 if quick else 40000))
        cand = cand[::step]
        lib = G.run_rd(["rd s " + d.hex() for _, d in cand])
        mod = G.run_driver(["rdq " + d.hex() for _, d in cand])
        for (k, d), a, m in zip(cand, lib, mod):
            if a is None or m is None or not a.startswith("I "):
                continue
            run.count("read-model: hostile file read by the library and by Model.ReadBlock (%s)" % (a.rsplit(" ", 1)[-1]))
            if not E.same_records(m, a) and len(run.model_fail) < 5:
                run.model_fail.append(("rdq " + d.hex()[:6000], {"correspondence": "Model.ReadBlock vs the library reader on a mutated file", "input kind": k,
                                       "model": (E.blocks_part(m) or "")[:800], "library": (E.blocks_part(a) or "")[:800]}))
    # time proportional to the input: tables of look-alike entries against controls of the same size and shape
    floods = table_floods(rng, 6000 if quick else 20000)
    fl_lines = []
    for name, crafted, control in floods:
        fl_lines += ["fz " + control.hex(), "fz " + crafted.hex(), "fz " + control.hex(), "fz " + crafted.hex()]
    fl_ans = vlib.run_lines([exe, "fz"], fl_lines, timeout=1800, min_chunk=4)
    worst_ratio = 0
    for fi, (name, crafted, control) in enumerate(floods):
        a = fl_ans[4 * fi:4 * fi + 4]
        run.case(("flood", name), True); run.count("input:table-flood")
        if any(x is None or not x.startswith("I ok:1:") for x in a):
            sig = "read:table-flood:" + name.split(",")[0]
            if sig not in seen:
                seen.add(sig)
                run.spec_fail.append((sig, "fz " + crafted.hex()[:20000], {"what": name, "answers": [str(x)[:200] for x in a], "expected": "I ok:1:0 for the control and the crafted file"}))
            continue
        us = [int(x.rsplit(" T", 1)[1]) for x in a]
        t_control, t_crafted = max(us[0], us[2]), min(us[1], us[3])
        worst_ratio = max(worst_ratio, t_crafted / max(1, t_control))
        if t_crafted > 8 * t_control + 250000:
            sig = "read:time-not-proportional:" + name.split(",")[0]
            if sig not in seen:
                seen.add(sig)
                run.spec_fail.append((sig, "fz " + crafted.hex()[:20000], {"what": name, "bytes": len(crafted), "microseconds (crafted, best of 2)": t_crafted,
                                      "microseconds (control of the same size and shape, worst of 2)": t_control, "bound": "8 x control + 0.25 s"}))
    run.extra["table floods: worst crafted/control read-time ratio"] = round(worst_ratio, 2)
    # command-line tools on a sample
    tools = vlib.build_cli_tools()
    tmp = tempfile.mkdtemp(prefix="c03_", dir=vlib.CACHE)
    try:
        sample = [d for k, d in inputs if k in ("corpus", "bomb")] + fb_tools + [d for _, d in rng.sample(inputs, 250 if quick else 20000)]
        run.count("tool inputs: boundary integer in one numeric field", len(fb_tools))
        files = []
        for i, d in enumerate(sample):
            p = os.path.join(tmp, "f%d" % i); open(p, "wb").write(d); files.append(p)
        run_tools(tools, files, seen, run, quick)
    finally:
        shutil.rmtree(tmp, ignore_errors=True)


def replay(run, data):
    run.lean()
    exe = vlib.build_harness("asan")
    for f in data.get("failures", []):
        if f["case"].startswith("fz "):
            a = vlib.run_lines([exe, "fz"], [f["case"]])[0]
            print(f["case"][:200]); print("  ->", (a or "")[:500])
        else:
            print(f["case"][:300], f["detail"])
    return 0
