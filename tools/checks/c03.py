"""C03 — reading untrusted bytes is memory-safe, bounded and fails only by exception.
Proof: Props/C03.lean (per-layer bounds: window, allocation requests, timestamp arithmetic, renderer indices, iterative skip).
Failing-input search on the implementation: valid files, structure-aware mutations (length fields up to 2^64-1, out-of-range
indices, nesting bombs, wrong major types, truncation, boundary integers, malformed names/addresses), byte-level mutations and
raw random bytes are run through the whole read side (reader, record accessors, every string() renderer, block copies)
in-process under ASan+UBSan with an allocation cap and an alarm, and through the five command-line tools as subprocesses."""
import os, random, shutil, subprocess, tempfile, concurrent.futures as cf
import vlib, cdnsgen as G, cborgen, refexp, expcheck as E

BIG = [2**64 - 1, 2**63, 2**63 - 1, 2**32, 2**32 - 1, 2**31, 65536, 65535, 256, 255, 24, 23, 1, 0]


def mutate_tree(rng, n):
    """in-place random structural mutation of a parsed tree; returns True if something changed"""
    nodes = []
    def walk(x):
        nodes.append(x)
        for c in x.children:
            walk(c)
    walk(n)
    x = rng.choice(nodes)
    k = rng.randrange(8)
    if k == 0 and x.major in (0, 1):
        x.arg = rng.choice(BIG)
    elif k == 1 and x.major in (0, 1):
        x.major = 1 - x.major
    elif k == 2 and x.major in (2, 3) and not x.indef:
        x.data = bytes(rng.randrange(256) for _ in range(rng.choice([0, 1, 3, 4, 5, 15, 16, 17, 20, 64, 300])))
    elif k == 3 and x.major in (2, 3):
        # domain-name / address shaped payloads
        L = rng.choice([1, 2, 20, 63, 64, 255])
        x.data = bytes([L]) + bytes(rng.choice([L, 0, 65, 255]) for _ in range(rng.choice([0, L - 1, L, L + 1, 19])))
    elif k == 4 and x.major in (4, 5) and x.children:
        rng.shuffle(x.children)
    elif k == 5 and x.major in (4, 5) and x.children:
        del x.children[rng.randrange(len(x.children))]
    elif k == 6 and x.major in (0, 1, 2, 3):
        x.major = rng.choice([0, 1, 2, 3]); x.data = x.data or b""
        if x.arg is None:
            x.arg = 0
    else:
        return False
    return True


def lie_about_length(rng, data):
    """overwrite one head so that it announces a huge length/count/value"""
    b = bytearray(data)
    for _ in range(20):
        i = rng.randrange(len(b))
        m, ai = b[i] >> 5, b[i] & 31
        if m in (2, 3, 4, 5) and ai <= 27:
            v = rng.choice(BIG[:8])
            return bytes(b[:i]) + cborgen.head(m, v, "w8") + bytes(b[i + 1 + {24: 1, 25: 2, 26: 4, 27: 8}.get(ai, 0):])
    return bytes(b)


def byte_mutate(rng, data):
    b = bytearray(data)
    for _ in range(rng.choice([1, 1, 2, 5])):
        k = rng.randrange(4)
        if not b:
            b.append(rng.randrange(256)); continue
        i = rng.randrange(len(b))
        if k == 0:
            b[i] = rng.randrange(256)
        elif k == 1:
            b[i] ^= 1 << rng.randrange(8)
        elif k == 2:
            del b[i]
        else:
            b.insert(i, rng.choice([0xff, 0x9f, 0xbf, 0x5f, 0x7f, 0x1b, 0x3b, 0x5b, 0x9b, 0xbb, 0xdb, rng.randrange(256)]))
    return bytes(b)


def bombs(quick=False):
    out = []
    for n in ((1000, 150000) if quick else (1000, 100000, 400000)):
        out.append(b"\x81" * n + b"\x01")
        out.append(b"\x9f" * n)
        out.append(b"\xc1" * n + b"\x01")
        out.append(b"\xbf" + b"\x00\x9f" * (n // 2))
        out.append(b"\x5f" + b"\x40" * n + b"\xff")
    hdr = bytes.fromhex("8365432d444e53")
    out += [hdr + b for b in out[:6]] + [hdr + b"\xa0" + b for b in out[:6]]
    # skip_item reached through an unknown preamble key
    deep = 250000 if quick else 4000000
    for opener, closer in ((b"\x81", b"\x01"), (b"\x9f", b""), (b"\xc1", b"\x00"), (b"\xa1\x00", b"\x00"), (b"\xbf\x00", b""),
                           (b"\xc1\x81", b"\x00"), (b"\xd8\x20\x9f", b"")):
        out.append(hdr + b"\xa1\x18\x63" + opener * deep + closer)          # skipped as the value of an unknown preamble key
    # ... and as an unknown member of a block of an otherwise valid file
    valid_head = bytes.fromhex("8365432d444e53a30001010003") + bytes.fromhex("81a100a5001903e8010a02a4001a0003ffff011a0001ffff0203030303800480") + b"\x9f"
    out.append(valid_head + b"\xa2\x00\xa1\x00\x82\x00\x00\x18\x64" + b"\xc1" * deep + b"\x00" + b"\xff")
    out.append(bytes.fromhex("5b0000010000000000")); out.append(hdr + bytes.fromhex("a1187b5b0000010000000000"))
    return out


def run_tools(tools, files, seen, run, quick):
    """each tool on each file as a subprocess; a signal, sanitizer report or timeout is a failure"""
    env = dict(os.environ); env.update(vlib.SAN_ENV)
    jobs = []
    for path in files:
        for t in ("cdns-blocks", "cdns-items", "cdns-itemcount", "cdns-preamble"):
            jobs.append((t, [path]))
        jobs.append(("cdns-merge", ["-o", path + ".out", path, path]))
    def one(j):
        t, args = j
        try:
            p = subprocess.run([tools[t]] + args, stdout=subprocess.DEVNULL, stderr=subprocess.PIPE, text=True, errors="replace", env=env, timeout=60)
            return t, args, p.returncode, p.stderr[-800:]
        except subprocess.TimeoutExpired:
            return t, args, "timeout", ""
    with cf.ThreadPoolExecutor(vlib.NCPU) as ex:
        for t, args, rc, err in ex.map(one, jobs):
            run.count("tool:" + t)
            bad = rc == "timeout" or (isinstance(rc, int) and (rc < 0 or rc > 2)) or "Sanitizer" in err or "runtime error" in err
            if bad:
                sig = "tool:%s:%s" % (t, "timeout" if rc == "timeout" else ("sanitizer" if "anitizer" in err or "runtime error" in err else "signal"))
                if sig not in seen:
                    seen.add(sig)
                    data = open(args[-1], "rb").read()
                    run.spec_fail.append((sig, "%s <file:%s>" % (t, data.hex()[:6000]), {"exit": rc, "stderr": err[-600:]}))


def check(run):
    run.lean()
    rng = run.rng
    quick = run.tier == "quick"
    run.rule = ("inputs: corpus of repaired defects, valid exporter files, structure-aware mutations of them (tree edits, lying length "
                "heads up to 2^64-1, truncation), byte-level mutations, nesting bombs up to 400k levels, raw random bytes; each run through "
                "reader + accessors + renderers in-process under ASan/UBSan (allocation cap 1 GiB, 20 s alarm) and a sample through the "
                "5 CLI tools; distinct by input bytes; non-trivial = every input except raw random bytes (results distribution is in 'distribution')")
    run.trusted += ["AddressSanitizer / UBSan (alignment check excluded, see DESIGN.md)", "harness/fz.cpp covers the read-side entry points it calls",
                    "tools built from src/bin with sanitizers"]
    seen = set()
    inputs = []
    for l in open(os.path.join(vlib.VERIF, "corpus", "C03", "known.txt")):
        l = l.strip()
        if l and not l.startswith("#"):
            inputs.append(("corpus", bytes.fromhex(l)))
    sessions = [refexp.gen_session(rng, nops=rng.randrange(1, 30), maxes=[1, 2, 3, 50], simple_bp=rng.random() < 0.5, stats_p=0.3)
                for _ in range(150 if quick else 3000)]
    res = E.run_sessions(run, sessions, need_rd=False, need_lean=False)
    valid = []
    for s, r in zip(sessions, res):
        if r["results"] is None:
            continue
        for data, err in r["plain"]:
            if data:
                valid.append(data)
    n_mut = 8000 if quick else 250000
    for v in valid[:300]:
        inputs.append(("valid", v))
    trees = []
    for v in valid[:200 if quick else 3000]:
        try:
            trees.append((v, cborgen.parse(v)[0]))
        except Exception:
            pass
    import copy
    while len(inputs) < n_mut:
        k = rng.random()
        v, t = rng.choice(trees)
        if k < 0.35:
            t2 = copy.deepcopy(t)
            for _ in range(rng.choice([1, 1, 2, 4])):
                mutate_tree(rng, t2)
            try:
                inputs.append(("tree", cborgen.encode(t2, rng, rng.choice([0, 0.1]))))
            except Exception:
                inputs.append(("byte", byte_mutate(rng, v)))
        elif k < 0.55:
            inputs.append(("length-lie", lie_about_length(rng, v)))
        elif k < 0.7:
            inputs.append(("truncate", v[:rng.randrange(len(v) + 1)]))
        elif k < 0.93:
            inputs.append(("byte", byte_mutate(rng, v)))
        else:
            inputs.append(("random", bytes(rng.randrange(256) for _ in range(rng.choice([0, 1, 8, 40, 300])))))
    for b in bombs(quick):
        inputs.append(("bomb", b))
    exe = vlib.build_harness("asan")
    lines = ["fz " + (d.hex() or "-") for _, d in inputs]
    ans = vlib.run_lines([exe, "fz"], lines, timeout=1800, min_chunk=256)
    for (kind, d), a in zip(inputs, ans):
        run.count("input:" + kind)
        ok = a is not None and a.startswith("I ")
        run.case((len(d), d[:24].hex(), hash(d)), kind != "random")
        if ok:
            run.count("result:" + a[2:].split(":")[0] + (":" + a[2:].split(":")[1] if a.startswith("I exc") else ""))
            continue
        summary = (a or "no answer")
        cls = "asan" if "AddressSanitizer" in summary else ("ubsan" if "runtime error" in summary else ("timeout" if "TIMEOUT" in summary or "alarm" in summary.lower() else "signal"))
        import re as _re
        m = _re.search(r"AddressSanitizer: ([a-zA-Z-]+)|runtime error: ([a-z -]+)", summary)
        what = (m.group(1) or m.group(2)).strip().replace(" ", "-")[:40] if m else cls
        sig = "read:%s:%s" % (cls, what)
        if sig not in seen:
            seen.add(sig)
            run.spec_fail.append((sig, "fz " + d.hex()[:20000], {"input kind": kind, "bytes": len(d), "implementation": summary[:400]}))
    # command-line tools on a sample
    tools = vlib.build_cli_tools()
    tmp = tempfile.mkdtemp(prefix="c03_", dir=vlib.CACHE)
    try:
        sample = [d for k, d in inputs if k in ("corpus", "bomb")] + [d for _, d in rng.sample(inputs, 250 if quick else 20000)]
        files = []
        for i, d in enumerate(sample):
            p = os.path.join(tmp, "f%d" % i); open(p, "wb").write(d); files.append(p)
        run_tools(tools, files, seen, run, quick)
    finally:
        shutil.rmtree(tmp, ignore_errors=True)


def replay(run, data):
    run.lean()
    exe = vlib.build_harness("asan")
    for f in data.get("failures", []):
        if f["case"].startswith("fz "):
            a = vlib.run_lines([exe, "fz"], [f["case"]])[0]
            print(f["case"][:200]); print("  ->", (a or "")[:500])
        else:
            print(f["case"][:300], f["detail"])
    return 0
