"""C19 — blocks have value semantics: a copy is complete and independent of its source.
Proof: Props/C19.lean over Model/Table.lean (explicit storage cells and KeyRef-style references).
Tie: histories over several real blocks (copy ctor, move ctor, copy/move assignment of CdnsBlockRead, then mutate / clear /
destroy the source, then add existing and new values to the copy, get, size, serialise) under ASan vs the Lean model vs a
value-semantics reference."""
import vlib, tblgen as T
from checks.common import pair
from checks.c11 import compare


def gen_hist(rng, nops):
    toks = ["new:0"]
    live = {0}
    # a block is in its "build" phase (items may be added: only blocks made by `new`) until it becomes the destination of a
    # copy; from then on it is only read (the documented contract of read_generic_*: no item is added or removed once reading
    # has started; the address-event cursor exists only in blocks that were copied / assigned / read from a file)
    phase = {0: "build"}
    pools = {t: [] for t in T.TABLES}
    nxt = 1
    for _ in range(nops):
        k = rng.random()
        b = rng.choice(sorted(live)) if live else None
        if b is None or k < 0.05:
            toks.append("new:%d" % nxt); live.add(nxt); phase[nxt] = "build"; nxt += 1
        elif k < 0.36:
            t = rng.choice(T.TABLES)
            v = T.gen_value(rng, t, pools[t])
            pools[t].append(v); pools[t] = pools[t][-8:]
            # mostly through the public add_*, sometimes as the reader stores entries (add_value: equal values kept apart)
            toks.append("%s%s:%d:%s" % ("v" if rng.random() < 0.25 else ("r" if t == "md" and rng.random() < 0.4 else "a"), t, b, v))
        elif k < 0.48:
            if phase[b] == "build":
                toks.append(rng.choice(["iq:%d:%d" % (b, rng.randrange(1, 9)), "im:%d:%d" % (b, rng.randrange(1, 9)), "ia:%d:%d" % (b, rng.randrange(0, 6))]))
            elif phase[b] == "read":
                toks.append(rng.choice(["rq:%d", "rq:%d", "rm:%d", "rm:%d", "RA:%d"]) % b)
            else:
                toks.append(rng.choice(["rq:%d", "rm:%d"]) % b)
        elif k < 0.52:
            toks.append(rng.choice(["st:%d:%d" % (b, rng.randrange(1, 9)), "gs:%d" % b, "gs:%d" % b]))
        elif k < 0.6:
            t = rng.choice(T.TABLES)
            toks.append("g%s:%d:%d" % (t, b, rng.randrange(6)))
        elif k < 0.66:
            toks.append("s%s:%d" % (rng.choice(T.TABLES), b))
        elif k < 0.82:
            how = rng.choice(["cc", "mc", "ca", "ma"])
            dst = rng.choice(sorted(live) + [nxt]) if how in ("ca", "ma") else nxt
            if dst == b:
                if how == "ca":
                    toks.append("cp:%d:%d:ca" % (b, b))     # self-assignment (through an alias, blocks[i] = blocks[j] with i == j): nothing may change
                continue
            toks.append("cp:%d:%d:%s" % (dst, b, how))
            if dst == nxt:
                nxt += 1
            live.add(dst); phase[dst] = "read"
        elif k < 0.9 and len(live) > 1:
            toks.append("del:%d" % b); live.discard(b)
        elif k < 0.94:
            toks.append("clr:%d" % b)
            if phase[b] != "build":
                phase[b] = "cleared"            # the address-event cursor of a cleared read block is not to be used
        else:
            toks.append("w:%d" % b)
    return toks


def check(run):
    run.lean()
    rng = run.rng
    quick = run.tier == "quick"
    run.rule = ("histories over up to ~10 blocks: add/get/size on the nine tables interleaved with copy ctor / move ctor / copy assignment / "
                "move assignment, destruction and clearing of sources, serialisation; items added to blocks under construction and "
                "read through read_generic_qr/_mm/_aec of their copies (cursors); run under ASan; distinct by history text; "
                "non-trivial = contains a copy followed by a destruction or mutation of its source")
    run.trusted += ["harness/tbl.cpp (CdnsBlockRead objects)", "Driver/Tbl.lean", "tools/tblgen.py value-semantics reference", "AddressSanitizer for use-after-free"]
    seen = set()
    cases = [gen_hist(rng, rng.randrange(5, 80)) for _ in range(2000 if quick else 100000)]
    # the canonical witness of the pinned defect
    cases.append(["new:0", "act:0:1.1", "aip:0:x0a", "cp:1:0:cc", "del:0", "act:1:1.1", "aip:1:x0a", "aip:1:x0b", "gip:1:1", "sct:1"])
    cases.append(["new:0", "act:0:1.1", "new:1", "cp:1:0:ca", "act:0:2.2", "clr:0", "act:1:1.1", "act:1:2.2", "gct:1:1"])
    # items and read cursors: a copy reads from the beginning whatever was read from its destination or its source before,
    # and keeps reading after its source is gone
    cases.append(["new:0", "iq:0:1", "iq:0:2", "im:0:7", "im:0:8", "im:0:9", "ia:0:3", "ia:0:3", "ia:0:5", "cp:1:0:cc", "rq:1", "rm:1", "rm:1",
                  "new:2", "im:2:4", "im:2:5", "cp:1:2:ca", "rm:1", "rm:1", "rm:1", "rq:1", "cp:3:0:cc", "del:0", "RA:3", "rq:3", "rq:3", "rq:3", "rm:3"])
    cases.append(["new:0", "aip:0:x0a", "act:0:1.1", "anr:0:x0b", "iq:0:4", "iq:0:5", "rq:0", "cp:0:0:ca", "gip:0:0", "gct:0:0", "gnr:0:0", "aip:0:x0a", "aip:0:x0c",
                  "sip:0", "rq:0", "rq:0", "w:0"])
    cases.append(["new:0", "st:0:7", "new:1", "cp:0:1:ca", "gs:0", "new:2", "st:2:3", "cp:3:2:cc", "gs:3", "cp:3:1:ma", "gs:3", "w:3", "w:1"])
    cases.append(["new:0", "ia:0:1", "ia:0:2", "ia:0:2", "iq:0:6", "cp:1:0:mc", "cp:2:1:cc", "RA:1", "del:1", "RA:2", "RA:2", "rq:2", "w:2", "w:0"])
    # tables as the reader fills them from another writer's file (equal entries kept apart), copied: every value - the ones stored
    # behind a repeated entry in particular - keeps the index it has in the source, in copies of copies too
    for T_ in ("ip", "nr", "ct"):
        vals = {"ip": ["x0a", "x0b", "x0c", "x0d"], "nr": ["x01", "x02", "x03", "x04"], "ct": ["1.1", "2.2", "3.3", "4.4"]}[T_]
        for dup_at in (0, 1, 2):
            toks = ["new:0"]
            for j, v in enumerate(vals):
                toks.append("v%s:0:%s" % (T_, v))
                if j == dup_at:
                    toks.append("v%s:0:%s" % (T_, v))            # the same value once more
            toks += ["cp:1:0:cc", "new:2", "cp:2:0:ca", "cp:3:1:cc"]
            for b in (0, 1, 2, 3):
                toks += ["a%s:%d:%s" % (T_, b, v) for v in vals] + ["a%s:%d:%s" % (T_, b, vals[-1])] + ["g%s:%d:%d" % (T_, b, j) for j in range(5)] + ["s%s:%d" % (T_, b)]
            cases.append(toks)
    compare(run, cases, seen, "copy")
    # "including the blocks returned by the reader": every block of a file read into / assigned to ONE block object must give the
    # records a fresh object gives (differing table contents under equal indices in consecutive blocks, cursors, cached look-ups)
    import refexp, expcheck as E, cdnsgen as G
    sessions = [refexp.gen_session(rng, nops=rng.randrange(8, 40), maxes=[1, 2, 3], stats_p=0.3) for _ in range(60 if quick else 3000)]
    res = E.run_sessions(run, sessions, need_lean=False)
    lines, want = [], []
    for s_, r in zip(sessions, res):
        if r["results"] is None:
            continue
        for oi, (data, err) in enumerate(r["plain"]):
            d = r["rd"].get(oi, "")
            if data and d.endswith(" EOF") and d.count(" B{") >= 2:
                for kind in ("R", "A"):
                    lines.append("rd %s %s" % (kind, data.hex())); want.append(d)
    for l, d, a in zip(lines, want, G.run_rd(lines)):
        run.case(("reuse", l[:200]), True, key=l); run.count("files read through one re-used block object")
        if a != d:
            sig = "copy:reused-reader-block:" + l.split()[1]
            if sig not in seen:
                seen.add(sig)
                run.spec_fail.append((sig, l[:8000], {"how": "R = CdnsBlockRead::read into the same object, A = block = reader.read_block(eof)",
                                                     "with fresh objects": d[:1500], "with one re-used object": (a or "")[:1500]}))


def replay(run, data):
    run.lean()
    cases = [f["case"] for f in data.get("failures", [])]
    impl, model = pair(run, "tbl", cases)
    for l, i, m in zip(cases, impl, model):
        print(l[:300]); print("  impl :", (i or "")[:300]); print("  model:", (m or "")[:300])
    return 0
