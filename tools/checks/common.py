"""helpers shared by the per-property checks"""
import vlib


def pair(run, layer, lines, timeout=900, min_chunk=64):
    """run the same request lines through the real library (harness) and the Lean driver"""
    exe = vlib.build_harness("asan")
    impl = vlib.run_lines([exe, layer], lines, timeout=timeout, min_chunk=min_chunk)
    if run.driver_ok:
        model = vlib.run_lines([vlib.driver_exe()], lines, timeout=timeout, min_chunk=min_chunk)
    else:
        model = [None] * len(lines)
    return impl, model


def shrink_list(items, fails, max_steps=200):
    """delta-debugging over a list; `fails(list)` -> bool"""
    cur = list(items)
    n = 2
    steps = 0
    while len(cur) >= 2 and steps < max_steps:
        chunk = max(1, len(cur) // n)
        reduced = False
        for i in range(0, len(cur), chunk):
            cand = cur[:i] + cur[i + chunk:]
            steps += 1
            if cand and fails(cand):
                cur = cand
                n = max(n - 1, 2)
                reduced = True
                break
        if not reduced:
            if chunk == 1:
                break
            n = min(len(cur), n * 2)
    return cur
