"""C11 — block tables de-duplicate, keep indices stable and stay referentially closed.
Proof: Props/C11.lean over Model/Table.lean.  Tie: interleaved add/get/size/clear on the nine tables of real blocks vs the
Lean table model vs a dictionary reference; values from small pools (forced repeats), large domains (growth, rehash) and
'differ in exactly one member' pairs; referential closure and isolation between blocks are decided on exporter output by the
independent reader (C02/C04 runs: every stored index must resolve; next block's tables start empty)."""
import vlib, tblgen as T, cdnsgen as G, refexp, expcheck as E
from checks.common import pair


def gen_seq(rng, nops, tables=None, big=False):
    toks = ["new:0"]
    pools = {t: [] for t in T.TABLES}
    tables = tables or T.TABLES
    for _ in range(nops):
        t = rng.choice(tables)
        k = rng.random()
        if k < 0.55:
            v = T.gen_value(rng, t, pools[t], small=not big)
            if rng.random() < 0.25 and pools[t]:
                v = T.toggle_one(rng, t, rng.choice(pools[t]))
            pools[t].append(v)
            if len(pools[t]) > 12 and not big:
                pools[t].pop(0)
            # malformed-message data: sometimes through ONE application object re-used for every call (members assigned)
            toks.append("%s%s:0:%s" % ("r" if t == "md" and rng.random() < 0.5 else "a", t, v))
        elif k < 0.85:
            toks.append("g%s:0:%d" % (t, rng.randrange(0, 8 if not big else 300)))
        elif k < 0.95:
            toks.append("s%s:0" % t)
        else:
            toks.append("clr:0")
            if rng.random() < 0.5:
                pools = {t: [] for t in T.TABLES}
    return toks


def compare(run, cases, seen, tag):
    lines = ["tbl " + " ".join(c) for c in cases]
    impl, model = pair(run, "tbl", lines, min_chunk=8)
    for toks, i, m in zip(cases, impl, model):
        run.case(" ".join(toks)[:300], True)
        exp = T.run_ref(toks)
        got = i.split()[1:] if i and i.startswith("I") else None
        if got is None or len(got) != len(exp):
            sig = tag + ":crash"
            if sig not in seen:
                seen.add(sig); run.spec_fail.append((sig, "tbl " + " ".join(toks), {"implementation": (i or "")[:400]}))
            continue
        bad = None
        digests = {}
        for k, (e, g) in enumerate(zip(exp, got)):
            if isinstance(e, tuple):
                if digests.setdefault(e[1], g) != g:
                    bad = (k, "serialisation differs for equal content")
                    break
                continue
            if e != g:
                bad = (k, "expected %s got %s" % (e, g)); break
        if bad:
            sig = tag + ":" + toks[bad[0]].split(":")[0]
            if sig not in seen:
                seen.add(sig)
                run.spec_fail.append((sig, "tbl " + " ".join(toks), {"op#": bad[0], "op": toks[bad[0]], "why": bad[1],
                                      "implementation": " ".join(got)[:600]}))
        elif m is not None:
            mg = m.split()[1:]
            diff = [k for k, (a, b) in enumerate(zip(mg, got)) if a != b and not toks[k].startswith("w:")]
            if diff and len(run.model_fail) < 10:
                run.model_fail.append(("tbl " + " ".join(toks), {"op#": diff[0], "model": mg[diff[0]], "implementation": got[diff[0]]}))


def check(run):
    run.lean()
    rng = run.rng
    quick = run.tier == "quick"
    run.rule = ("op sequences (add/get/size/clear) per table and mixed over the nine tables; small pools, large domains, one-member toggles; "
                "distinct by sequence text; plus exporter streams over many flushes validated by the independent reader")
    run.trusted += ["harness/tbl.cpp", "Driver/Tbl.lean", "tools/tblgen.py reference", "SSE4.2 CRC32 treated as an arbitrary hash function"]
    seen = set()
    cases = []
    nseq, nops = (200, 300) if quick else (5000, 2000)
    for t in T.TABLES:
        for _ in range(nseq // 9 + 1):
            cases.append(gen_seq(rng, nops, [t]))
    for _ in range(nseq // 4):
        cases.append(gen_seq(rng, nops))
    for _ in range(12 if quick else 200):
        cases.append(gen_seq(rng, 1200, [rng.choice(T.TABLES)], big=True))
    # two index lists of different length with the same CRC32C code under the library's seed (found by an offline 2^32
    # search): a list and a longer one that starts with it must stay two entries, in both orders of arrival
    for T_ in ("rl", "ql"):
        cases.append(["new:0", "a%s:0:0" % T_, "a%s:0:0.1.1366104114" % T_, "a%s:0:0" % T_, "g%s:0:0" % T_, "g%s:0:1" % T_, "s%s:0" % T_])
        cases.append(["new:0", "a%s:0:0.1.1366104114" % T_, "a%s:0:0" % T_, "a%s:0:0.1.1366104114" % T_, "g%s:0:0" % T_, "g%s:0:1" % T_, "s%s:0" % T_,
                      "cp:1:0:cc", "a%s:1:0" % T_, "a%s:1:0.1.1366104114" % T_])
    # values of EQUAL length whose CRC32C codes collide (the code is linear: flipping 32 bits somewhere and the 32 bits that follow
    # by the matching amount leaves it unchanged): the difference sits at every position in turn - equality has to look at every
    # element / byte although the hash codes agree; both orders of arrival, then the look-ups
    def crc0(bs, st=0):
        for b in bs:
            st ^= b
            for _ in range(8):
                st = (st >> 1) ^ (0x82F63B78 if st & 1 else 0)
        return st
    for n in (2, 3, 5, 8, 9, 16, 33):
        base = [rng.randrange(0, 1 << 32) for _ in range(n)]
        for i in range(n - 1):
            x = rng.randrange(1, 1 << 32)
            sx = crc0(x.to_bytes(4, "little"))
            other = list(base); other[i] ^= x; other[i + 1] ^= sx
            a, b = ".".join(map(str, base)), ".".join(map(str, other))
            for T_ in ("rl", "ql"):
                cases.append(["new:0", "a%s:0:%s" % (T_, a), "a%s:0:%s" % (T_, b), "a%s:0:%s" % (T_, a), "a%s:0:%s" % (T_, b),
                              "g%s:0:0" % T_, "g%s:0:1" % T_, "s%s:0" % T_])
    for L in (8, 9, 20, 64, 70):
        base = bytes(rng.randrange(256) for _ in range(L))
        for i in sorted(j for j in {0, 1, L // 4, L // 2, L - 8} if 0 <= j <= L - 8):
            x = rng.randrange(1, 1 << 32).to_bytes(4, "little")
            sx = crc0(x).to_bytes(4, "little")
            d = bytes(i) + x + sx + bytes(L - i - 8)
            other = bytes(p ^ q for p, q in zip(base, d))
            for T_ in ("nr", "ip"):
                cases.append(["new:0", "a%s:0:%s" % (T_, T.xh(base)), "a%s:0:%s" % (T_, T.xh(other)), "a%s:0:%s" % (T_, T.xh(base)),
                              "a%s:0:%s" % (T_, T.xh(other)), "g%s:0:0" % T_, "g%s:0:1" % T_, "s%s:0" % T_])
    # long strings (TXT/DNSKEY/RRSIG RDATA, long names, payloads): equal ones share an entry, ones that differ in a single byte - early,
    # around the 64th, or last - do not
    for L in (63, 64, 65, 66, 100, 255, 256, 1000, 4096):
        base = bytes(rng.randrange(256) for _ in range(L))
        variants = [base] + [base[:k] + bytes([base[k] ^ 1]) + base[k + 1:] for k in sorted({0, min(L - 1, 63), min(L - 1, 64), L - 1})]
        for T_ in ("nr", "ip"):
            toks = ["new:0"]
            for v in variants + variants[::-1] + [base]:
                toks.append("a%s:0:%s" % (T_, T.xh(v)))
            toks += ["g%s:0:%d" % (T_, j) for j in range(len(variants))] + ["s%s:0" % T_]
            cases.append(toks)
        toks = ["new:0"]
        for v in variants + variants[::-1]:
            toks.append("amd:0:1.53.1.%s" % T.xh(v))
        cases.append(toks + ["smd:0"])
    compare(run, cases, seen, "tbl")
    # isolation between consecutive blocks + referential closure through the exporter
    sessions = [refexp.gen_session(rng, nops=rng.randrange(20, 120), maxes=[1, 2, 3]) for _ in range(150 if quick else 5000)]
    res = E.run_sessions(run, sessions)
    for s, r in zip(sessions, res):
        run.case(s[0][:200], True, key=s[0])
        bad = E.judge_files(s, r, tag="stream")
        for oi, lg in r["lean"].items():
            if lg and " #" in lg:
                meta = dict(kv.split("=") for kv in lg.split(" #")[1].split(","))
                if int(meta["unreach"]) != 0:
                    bad.append(("stream:leftover-table-entry", {"output": oi, "unreachable entries": meta["unreach"]}))
        E.record_failures(run, s, bad, seen)


    # the READ side fills its tables entry by entry (no de-duplication): in a file of another writer that stores an equal address or
    # name twice, every stored index must still denote the entry it denoted in the file
    import foreign
    lines, metas = [], []
    for s, r in zip(sessions, res):
        if r["results"] is None:
            continue
        for oi, (data, err) in enumerate(r["plain"]):
            d = r["rd"].get(oi) or ""
            if data and d.endswith(" EOF") and len(lines) < (250 if quick else 5000):
                for _ in range(2):
                    d2, nd = foreign.dup_table_entries(data, rng)
                    if nd:
                        lines.append("rd s " + d2.hex()); metas.append((d, s, nd))
    for l, (d, s, nd), a in zip(lines, metas, G.run_rd(lines)):
        run.case(("foreign-dup", l[:200]), True, key=l); run.count("files with duplicated table entries read back")
        if a != d and "stream:duplicate-table-entries" not in seen:
            seen.add("stream:duplicate-table-entries")
            run.spec_fail.append(("stream:duplicate-table-entries", l[:8000], {"duplicated entries": nd, "records of the original file": d[:1500],
                                                                               "records of the file with duplicated entries": (a or "")[:1500]}))


def replay(run, data):
    run.lean()
    cases = [f["case"] for f in data.get("failures", [])]
    impl, model = pair(run, "tbl", cases)
    for l, i, m in zip(cases, impl, model):
        print(l[:300]); print("  impl :", (i or "")[:300]); print("  model:", (m or "")[:300])
    return 0
