"""C04 — storage hints are honoured: nothing the configuration excludes reaches the file.
Proof: Props/C04.lean.  Decision on the implementation: for masks with every single bit cleared / alone and random masks,
and records with every optional field set, the file read by the independent Lean reader must equal the RFC projection
(members absent when the bit is off), have no unreachable table entry, and state the applied hints in its preamble."""
import vlib, cdnsgen as G, refexp, expcheck as E


def masks(rng, quick):
    out = []
    for b in range(18):
        out.append((G.ALL_QRH & ~(1 << b), G.ALL_SIGH, 3, 3))
        out.append(((1 << b) | (1 << G.SIG_BIT if b % 2 else 0), G.ALL_SIGH, 3, 3))
        out.append((1 << b, 0, 0, 3))
    for b in range(17):
        out.append((G.ALL_QRH, G.ALL_SIGH & ~(1 << b), 3, 3))
        out.append((1 << G.SIG_BIT, 1 << b, 3, 3))
    for rrh in range(4):
        for odh in range(4):
            out.append((G.ALL_QRH, G.ALL_SIGH, rrh, odh))
    out.append((0, 0, 0, 0))
    for _ in range(150 if quick else 20000):
        out.append((rng.randrange(2**18), rng.randrange(2**17), rng.randrange(4), rng.randrange(4)))
    return out


def check(run):
    run.lean()
    rng = run.rng
    quick = run.tier == "quick"
    run.rule = ("(mask, record batch) pairs: every single query-response / signature hint bit cleared and alone, all rr/other-data masks, "
                "random masks; batches of fully populated records + AEC + MM; expected file = RFC projection; unreachable table "
                "entries must be 0; distinct by session text")
    run.trusted += ["harness/file.cpp", "Spec/Cdns.lean (independent reader incl. reachability)", "tools/cdnsgen.py project_qr (RFC hint semantics)"]
    sessions = []
    reps = 2 if quick else 10
    for (qrh, sigh, rrh, odh) in masks(rng, quick):
        for _ in range(reps):
            pools = G.Pools(rng)
            bp = {"tps": 1000, "max": rng.choice([1, 3, 100]), "qrh": qrh, "sigh": sigh, "rrh": rrh, "odh": odh}
            ops = []
            for _ in range(rng.randrange(1, 6)):
                k = rng.random()
                if k < 0.6:
                    ops.append(("Q", G.gen_qr(rng, pools, full=rng.random() < 0.7, tps=1000), None))
                elif k < 0.8:
                    ops.append(("A", G.gen_aec(rng, pools), None))
                else:
                    ops.append(("M", G.gen_mm(rng, pools, p_present=0.9, tps=1000), None))
            sessions.append(refexp.make_session({"maj": 1, "min": 0, "priv": 1}, [bp], ops))
    # hints edited in place through get_active_block_parameters_ref(), taking effect with the next output: the blocks of the new
    # output must apply – and its preamble must state – the edited hints
    def batch(n):
        pools = G.Pools(rng)
        o = []
        for _ in range(n):
            k = rng.random()
            o.append(("Q", G.gen_qr(rng, pools, full=rng.random() < 0.8, tps=1000), None) if k < 0.6 else
                     ("A", G.gen_aec(rng, pools), None) if k < 0.8 else ("M", G.gen_mm(rng, pools, p_present=0.9, tps=1000), None))
        return o
    for _ in range(200 if quick else 5000):
        def mask():
            return rng.choice([{"qrh": G.ALL_QRH, "sigh": G.ALL_SIGH, "rrh": 3, "odh": 3}, {"qrh": 0, "sigh": 0, "rrh": 0, "odh": 0},
                               {"qrh": rng.randrange(2**18), "sigh": rng.randrange(2**17), "rrh": rng.randrange(4), "odh": rng.randrange(4)}])
        bp = dict(tps=1000, max=rng.choice([1, 3, 100]), **mask())
        ops = batch(rng.randrange(0, 4))
        tgt = rng.choice(["fd", "nm"])
        for _ in range(rng.randrange(1, 4)):
            ops += [("EH", mask()), ("R", tgt, True)] + batch(rng.randrange(1, 5))
        sessions.append(refexp.make_session({"maj": 1, "min": 0, "priv": 1}, [bp], ops, target=tgt))
    # several parameter sets with different hints, the active set switched back and forth between blocks (set_active after a
    # flush; a set added later is activated after a rotation): every block must apply - and be labelled with - the set in force
    for _ in range(300 if quick else 8000):
        pools = G.Pools(rng)
        bps = [dict(tps=rng.choice([1000, 10**6]), max=rng.choice([1, 2, 3]), **m) for m in
               ({"qrh": G.ALL_QRH, "sigh": G.ALL_SIGH, "rrh": 3, "odh": 3}, {"qrh": rng.randrange(2**18), "sigh": rng.randrange(2**17), "rrh": rng.randrange(4), "odh": rng.randrange(4)},
                {"qrh": rng.randrange(2**18) | 4, "sigh": 0, "rrh": 0, "odh": rng.randrange(4)})][:rng.choice([2, 3])]
        ops = []
        for _ in range(rng.randrange(2, 7)):
            ops.append(("SA", rng.randrange(len(bps))))
            ops.append(("W",))
            for _ in range(rng.randrange(1, 4)):
                k = rng.random()
                ops.append(("Q", G.gen_qr(rng, pools, full=rng.random() < 0.7, tps=1000), None) if k < 0.7 else
                           ("A", G.gen_aec(rng, pools), None) if k < 0.85 else ("M", G.gen_mm(rng, pools, p_present=0.9, tps=1000), None))
        sessions.append(refexp.make_session({"maj": 1, "min": 0, "priv": 1}, bps, ops))
    # single-block sessions for the block-building model (all hints random, big block)
    nb0 = len(sessions)
    for _ in range(500 if quick else 20000):
        tps = rng.choice([1, 1000, 10**6, 10**9])
        bp = {"tps": tps, "max": 10000, "qrh": rng.choice([G.ALL_QRH, rng.randrange(2**18)]), "sigh": rng.choice([G.ALL_SIGH, rng.randrange(2**17)]),
              "rrh": rng.randrange(4), "odh": rng.randrange(4)}
        pools = G.Pools(rng)
        ops = []
        for _ in range(rng.randrange(1, 9)):
            k = rng.random()
            st = G.gen_stats(rng) if rng.random() < 0.3 else None
            ops.append(("Q", G.gen_qr(rng, pools, full=rng.random() < 0.5, tps=tps), st) if k < 0.6 else
                       ("A", G.gen_aec(rng, pools), st) if k < 0.8 else ("M", G.gen_mm(rng, pools, p_present=0.7, tps=tps), st))
        sessions.append(refexp.make_session({"maj": 1, "min": 0, "priv": 1}, [bp], ops))
    res = E.run_sessions(run, sessions)
    E.judge_builder(run, sessions[nb0:], res[nb0:])
    seen = set()
    for s, r in zip(sessions, res):
        run.case(s[0][:300], True, key=s[0])
        bad = E.judge_files(s, r, tag="hints")
        for oi, lg in r["lean"].items():
            if lg and " #" in lg:
                meta = dict(kv.split("=") for kv in lg.split(" #")[1].split(","))
                if int(meta["unreach"]) != 0:
                    bad.append(("hints:unreachable-table-entry", {"output": oi, "unreachable entries": meta["unreach"], "file": lg[:1200]}))
        E.record_failures(run, s, bad, seen)
    reused_blocks(run, rng, quick, seen)


def reused_blocks(run, rng, quick, seen):
    """an application-built block (write_block(block)) of a parameter set other than 0, written, clear()ed, refilled and written
    again: both blocks must state the set they were built for (the hints and tick rate the file attributes to them)"""
    import re
    sessions, metas = [], []
    for i in range(60 if quick else 2000):
        fp = {"maj": 1, "min": 0}
        bps = [G.gen_bp(rng, simple=False, tps=rng.choice([1000, 10**6]), maxb=50), G.gen_bp(rng, simple=False, tps=rng.choice([1, 10**9]), maxb=50)]
        for b in bps:
            b["odh"] = 3
        k = rng.randrange(2)
        l1 = "".join(rng.choice("pTUaN") for _ in range(rng.randrange(1, 4)))
        l2 = "".join(rng.choice("pTUaN") for _ in range(rng.randrange(1, 4)))
        line = "exp FP:maj=1,min=0 %s %s X:fd:n WBR:%d:%s:%s D" % (G.bp_token(bps[0]), G.bp_token(bps[1]), k, l1, l2)
        sessions.append((line, refexp.RefExporter(fp, bps), [])); metas.append(k)
    for s, r, k in zip(sessions, E.run_sessions(run, sessions, need_rd=True), metas):
        run.case(s[0][:300], True, key=s[0]); run.count("re-used application block")
        bad = []
        for oi, lg in r["lean"].items():
            pis = re.findall(r"B\{pi=(\d+)", lg or "")
            rd = r["rd"].get(oi, "") or ""
            if len(pis) != 2 or any(int(p) != k for p in pis):
                bad.append(("hints:reused-block-parameters", {"why": "both blocks were built for parameter set %d; the file attributes them to %s" % (k, pis),
                                                              "independent reader": (lg or "")[:800]}))
            elif re.findall(r"B\{pi=(\d+)", rd) != pis:
                bad.append(("hints:reused-block-parameters:library-reader", {"library reader": rd[:800]}))
        if not r["lean"]:
            bad.append(("hints:reused-block:no-output", {"implementation": (r.get("raw") or "")[:300]}))
        E.record_failures(run, s, bad, seen)


def replay(run, data):
    run.lean()
    for f in data.get("failures", []):
        ans = G.run_exp([f["case"]])[0]
        print(f["case"][:500]); print("  ->", (ans or "")[:1000])
    return 0
