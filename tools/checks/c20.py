"""C20 — independent exporter/reader instances are safe to use from concurrent threads.
Proof: Props/C20.lean (schedule_independent + the generated obligations no_shared_mutable / no_nonreentrant_call over the
inventory T2 rebuilds from the working tree's objects).  Failing-input search: a ThreadSanitizer build of the harness runs
2..16 threads, each with its own exporter / reader / renderer workload on a distinct output (all three compression modes),
with injected yields; TSan reports or per-thread results differing from the sequential run are the concrete failing schedule."""
import os, subprocess, time
import vlib


def check(run):
    run.lean()
    quick = run.tier == "quick"
    run.rule = ("runs = (thread count 2..16, records per thread, seed); each run executes every workload sequentially and then all "
                "concurrently under ThreadSanitizer; a run is distinct by its parameters and non-trivial when >= 2 threads ran concurrently")
    run.trusted += ["translator T2 (nm / readelf / gdb whatis over -O0 -g objects of src/*.cpp)", "ThreadSanitizer happens-before race detection",
                    "libstdc++, zlib, liblzma thread-safe for distinct objects"]
    exe = vlib.build_harness("tsan")
    budget = 30 if quick else 600
    t0 = time.time()
    env = dict(os.environ)
    env["TSAN_OPTIONS"] = "halt_on_error=0:second_deadlock_stack=1:report_signal_unsafe=0:history_size=4"
    i = 0
    seen = set()
    while time.time() - t0 < budget and i < (40 if quick else 2000):
        n = [2, 3, 4, 8, 16, 5, 12][i % 7]
        nrec = [20, 60, 200][i % 3]
        seed = run.seed * 1000 + i
        line = "thr %d %d %d" % (n, nrec, seed)
        try:
            p = subprocess.run([exe, "thr"], input=line + "\n", stdout=subprocess.PIPE, stderr=subprocess.PIPE, text=True, errors="replace", env=env, timeout=300)
            out, err, rc = p.stdout.strip(), p.stderr, p.returncode
        except subprocess.TimeoutExpired:
            out, err, rc = "", "TIMEOUT", -1
        run.case(line, n >= 2)
        run.count("threads:%d" % n)
        i += 1
        bad = None
        if "ThreadSanitizer" in err:
            first = [l for l in err.splitlines() if "WARNING: ThreadSanitizer" in l][:1]
            locs = [l.strip() for l in err.splitlines() if l.strip().startswith("#") and "/repo/src" in l][:6]
            bad = ("race", {"report": first, "frames in the library": locs, "stderr": err[:3000]})
        elif not out.startswith("I seq="):
            bad = ("crash", {"stdout": out[:300], "stderr": err[-600:], "exit": rc})
        else:
            seq, par = out[2:].split(" ")
            if seq[4:] != par[4:]:
                bad = ("different-results", {"sequential": seq[:600], "concurrent": par[:600]})
            elif "stale:BAD" in out:
                bad = ("foreign-descriptor-touched", {"what": "after a failed rotation an exporter wrote to or closed a descriptor number it no longer "
                                                               "owns; the number had been re-used by an independent output", "output": out[:600]})
        if bad and bad[0] not in seen:
            seen.add(bad[0])
            run.spec_fail.append(("threads:" + bad[0], line, bad[1]))
    run.extra["seconds_of_schedules"] = round(time.time() - t0, 1)


def replay(run, data):
    run.lean()
    exe = vlib.build_harness("tsan")
    for f in data.get("failures", []):
        p = subprocess.run([exe, "thr"], input=f["case"] + "\n", stdout=subprocess.PIPE, stderr=subprocess.PIPE, text=True, errors="replace")
        print(f["case"], p.stdout[:300], p.stderr[:1500])
    return 0
