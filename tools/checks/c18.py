"""C18 — cdns-merge preserves every block and record; cdns-itemcount counts are true.
Proof: Props/C18.lean over Model/Merge.lean.  Tie: the real cdns-merge / cdns-itemcount binaries (built with sanitizers from the
working tree) on tuples of 1..6 generated files (differing parameters, tick rates, hints, several parameter sets, empty /
unreadable / version-mismatched / truncated members, duplicates); the merged file is read by the library reader and by the
independent Lean reader and compared with the expectation assembled from the Lean merge model's structure and the inputs' own
dumps; itemcount output is compared with counts from the independent parse."""
import os, re, shutil, subprocess, tempfile
import vlib, cdnsgen as G, cborgen, refexp, expcheck as E


def split_dump(d):
    """'F{..}P{..}P{..} B{..} B{..} EOF' -> (F, [P...], [B...], tail)"""
    parts = d.split(" ")
    head = parts[0]
    f = head[:head.index("}") + 1]
    ps = re.findall(r"P\{[^}]*\}", head)
    return f, ps, [p for p in parts[1:] if p.startswith("B{")], parts[-1]


def block_items(b):
    return (b.count(";Q{"), b.count(";A{"), b.count(";M{"))


def run_tool(exe, args, timeout=120):
    env = dict(os.environ); env.update(vlib.SAN_ENV)
    try:
        return subprocess.run([exe] + args, stdout=subprocess.PIPE, stderr=subprocess.PIPE, text=True, errors="replace", env=env, timeout=timeout)
    except subprocess.TimeoutExpired:
        return None


def check(run):
    run.lean()
    rng = run.rng
    quick = run.tier == "quick"
    run.rule = ("tuples of 1..6 input files from random exporter sessions (1-3 parameter sets, differing hints/tick rates/versions), with "
                "unreadable (garbage / empty), version-mismatched, truncated and duplicated members; cdns-merge output vs expectation; "
                "cdns-itemcount with {}, -b, -p, -b -p vs independent counts; distinct by tuple structure")
    run.trusted += ["src/bin tools built by tools/vlib.py with ASan/UBSan", "Driver/Mrg.lean", "Spec/Cdns.lean", "harness rd layer for per-input dumps"]
    tools = vlib.build_cli_tools()
    tmp = tempfile.mkdtemp(prefix="c18_", dir=vlib.CACHE)
    seen = set()
    try:
        ntuples = 300 if quick else 10000
        # a pool of input files
        pool = []
        sessions = []
        for i in range(60 if quick else 600):
            s = refexp.gen_session(rng, nops=rng.randrange(1, 25), maxes=[1, 2, 3, 50], nbps=rng.choice([1, 2, 3]), simple_bp=rng.random() < 0.6)
            # versions: mostly 1.0.1, sometimes different
            v = rng.choice(["maj=1,min=0,priv=1"] * 6 + ["maj=1,min=0", "maj=1,min=0", "maj=1,min=0,priv=0", "maj=1,min=0,priv=0", "maj=1,min=1,priv=1", "maj=2,min=0,priv=1",
                                                                "maj=1,min=0,priv=2", "maj=0,min=1,priv=1", "maj=1,min=0,priv=10"])
            line = re.sub(r"FP:\S+", "FP:" + v, s[0])
            sessions.append((line, s[1], s[2]))
        res = E.run_sessions(run, sessions, need_rd=False)
        for (line, ref, _), r in zip(sessions, res):
            if r["results"] is None:
                continue
            for oi, (data, err) in enumerate(r["plain"]):
                lg = r["lean"].get(oi) or ""
                # what an input contains is taken from the INDEPENDENT parse, not from the library's reader
                if data and lg.startswith("S F{") and " EOF #" in lg:
                    pool.append({"data": data, "dump": lg[2:].split(" #")[0]})
        # files as other writers may produce them: tables holding a value twice (references spread over both copies) and
        # equivalent re-encodings; what they contain is again taken from the independent reader
        import foreign
        extra = []
        for f in pool[:(40 if quick else 400)]:
            d2, nd = foreign.dup_table_entries(f["data"], rng)
            if nd:
                extra.append(d2)
            top, _ = cborgen.parse(f["data"])
            extra.append(cborgen.encode(top, rng, rng.choice([0.1, 0.4]), cborgen.unknown_member if rng.random() < 0.5 else None))
            # a non-aggregating writer: one address-event key in several items (different counts); blocks of parameter set 0
            # without the optional block-parameters-index
            d3, na = foreign.repeat_address_events(f["data"], rng)
            if na:
                extra.append(d3); run.count("pool: repeated address-event keys", na)
            d4, nb = foreign.drop_block_parameters_index(d3 if na and rng.random() < 0.5 else f["data"], rng)
            if nb:
                extra.append(d4); run.count("pool: blocks without block-parameters-index", nb)
            d5, ne = foreign.insert_empty_blocks(f["data"], rng)
            if ne:
                extra.append(d5); run.count("pool: files with item-less blocks")
        # twins: a pool file and the same file with another tick rate / with or without collection parameters in its first
        # parameter set - merged together their parameter sets must stay apart
        twins = []
        for f in pool[:(25 if quick else 250)]:
            for tw in (foreign.twin_tick_rate(f["data"], rng), foreign.twin_collection(f["data"], rng)):
                if tw is not None:
                    twins.append((f, tw))
        twin_pairs = []
        if extra and run.driver_ok:
            for d2, lg in zip(extra, G.run_driver(["cdns " + d.hex() for d in extra])):
                if lg and lg.startswith("S F{") and " EOF #" in lg:
                    pool.append({"data": d2, "dump": lg[2:].split(" #")[0]})
                    run.count("pool: foreign-writer file")
            for (f, tw), lg in zip(twins, G.run_driver(["cdns " + tw.hex() for _, tw in twins])):
                if lg and lg.startswith("S F{") and " EOF #" in lg:
                    g = {"data": tw, "dump": lg[2:].split(" #")[0]}
                    pool.append(g); twin_pairs.append((f, g)); run.count("pool: twin files")
        # every pool file (library-written, foreign-writer layouts, twins) through the MODEL of the read side of a block
        if run.driver_ok:
            pl = [f["data"] for f in pool if len(f["data"]) < 30000]
            for d_, a_, q_ in zip(pl, G.run_rd(["rd s " + d.hex() for d in pl]), G.run_driver(["rdq " + d.hex() for d in pl])):
                run.count("read-model: pool file resolved by Model.ReadBlock")
                if not E.same_records(q_, a_) and len(run.model_fail) < 5:
                    run.model_fail.append(("rdq " + d_.hex()[:6000], {"correspondence": "Model.ReadBlock vs the library reader on a pool file",
                                           "model": (E.blocks_part(q_) or "")[:1000], "library": (E.blocks_part(a_) or "")[:1000]}))
        cases = []
        for t in range(ntuples):
            members = []
            for _ in range(rng.randrange(1, 7)):
                k = rng.random()
                if k < 0.7 or (not members and t % 4):      # (every fourth tuple may start with an unreadable member)
                    f = rng.choice(pool)
                    members.append(("ok", f["data"], f["dump"]))
                elif k < 0.78:
                    members.append(("garbage", bytes(rng.randrange(256) for _ in range(rng.choice([0, 1, 30]))), None))
                elif k < 0.86:
                    f = rng.choice(pool)
                    top, _ = cborgen.parse(f["data"])
                    blocks = top.children[2].children
                    if len(blocks) >= 2:
                        cut = rng.randrange(blocks[0].end, blocks[-1].end)
                        nb = sum(1 for b in blocks if b.end <= cut)
                        fdump, ps, bs, _ = split_dump(f["dump"])
                        members.append(("trunc", f["data"][:cut], " ".join([fdump + "".join(ps)] + bs[:nb] + ["E:end"])))
                    else:
                        members.append(("ok", f["data"], f["dump"]))
                else:
                    members.append(("dup", None, None) if members else ("garbage", b"", None))
            cases.append(members)
        # an input that becomes unreadable part-way, cut at EVERY byte between its first and last block, followed by an intact input
        # (with question / resource-record lists): the intact one must come through undisturbed whatever the reader was doing when
        # the first one ended
        cand = [f for f in pool if len(f["data"]) <= 1500 and f["dump"].count(" B{") >= 2 and ("qq=" in f["dump"] or "ra=" in f["dump"] or "qa=" in f["dump"])]
        for f in sorted(cand, key=lambda f: len(f["data"]))[:(1 if quick else 4)]:
            top, _ = cborgen.parse(f["data"])
            blocks = top.children[2].children
            fdump, ps, bs, _ = split_dump(f["dump"])
            for cut in range(blocks[0].end, blocks[-1].end):
                nb = sum(1 for b in blocks if b.end <= cut)
                cases.append([("trunc", f["data"][:cut], " ".join([fdump + "".join(ps)] + bs[:nb] + ["E:end"])), ("ok", f["data"], f["dump"])])
            run.count("tuples: input cut at every byte, then an intact input", blocks[-1].end - blocks[0].end)
        for f, g in twin_pairs:
            cases.append([("ok", f["data"], f["dump"]), ("ok", g["data"], g["dump"])])
            cases.append([("ok", g["data"], g["dump"]), ("ok", f["data"], f["dump"]), ("ok", g["data"], g["dump"])])
        lines = []
        metas = []
        mrgb_jobs = []
        for ci, members in enumerate(cases):
            d = os.path.join(tmp, "t%d" % ci); os.makedirs(d)
            names, files = [], {}
            for mi, (kind, data, dump) in enumerate(members):
                if kind == "dup":
                    if names:
                        names.append(rng.choice(names))
                    continue
                n = os.path.join(d, "in%d" % mi)
                open(n, "wb").write(data)
                names.append(n); files[n] = (kind, data, dump)
            out = os.path.join(d, "out")
            # in-place accumulation: the output is one of the inputs (safe because the output is produced as '<name>.part' and
            # renamed only when complete)
            if ci % 8 == 5 and names:
                out = rng.choice(names)
                run.count("output is one of the inputs")
            r = run_tool(tools["cdns-merge"], ["-o", out] + names)
            metas.append((ci, names, files, out, r))
        # model + readers
        mlines, rdlines = [], []
        for ci, names, files, out, r in metas:
            defs = []
            for n, (kind, data, dump) in files.items():
                if dump is None:
                    defs.append("%s=-" % os.path.basename(n)); continue
                fdump, ps, bs, tail = split_dump(dump)
                m = re.match(r"F\{maj=(\d+),min=(\d+)(?:,priv=(\d+))?\}", fdump)
                ver = "%s.%s.%s" % (m.group(1), m.group(2), m.group(3) or "n")
                blks = ["%s.%d.0" % (re.match(r"B\{pi=(\d+)", b).group(1), 1 if sum(block_items(b)) else 0) for b in bs]
                if tail != "EOF":
                    blks.append("0.1.1")
                defs.append("%s=%s/%d/%s" % (os.path.basename(n), ver, len(ps), "+".join(blks)))
            mlines.append("mrg %s %s" % (",".join(os.path.basename(n) for n in names), " ".join(defs)))
            data = open(out, "rb").read() if os.path.exists(out) else None
            rdlines.append("rd s %s" % (data.hex() if data else "-"))
        mans = G.run_driver(mlines) if run.driver_ok else [None] * len(mlines)
        rds = G.run_rd(rdlines)
        leans = G.run_driver(["cdns " + l.split()[2] for l in rdlines]) if run.driver_ok else [None] * len(rdlines)
        for (ci, names, files, out, r), ml, ma, rd, lg in zip(metas, mlines, mans, rds, leans):
            run.case(ml[:300], True)
            kinds = sorted(set(k for k, _, _ in files.values()))
            run.count("members:" + "+".join(kinds))
            case_txt = "cdns-merge -o %s " % os.path.basename(out) + " ".join(os.path.basename(n) for n in names) + " ;; " + " ;; ".join(
                "%s=%s" % (os.path.basename(n), (v[1].hex()[:3000])) for n, v in files.items())
            if r is None or r.returncode != 0 or "Sanitizer" in (r.stderr or ""):
                sig = "merge:tool-failed"
                if sig not in seen:
                    seen.add(sig); run.spec_fail.append((sig, case_txt[:8000], {"exit": None if r is None else r.returncode, "stderr": (r.stderr if r else "timeout")[-600:]}))
                continue
            if ma is None:
                continue
            ver, ps, bs = [x.strip() for x in ma[2:].split("|")]
            idx_files = list(files.keys())
            def pdump(pid):
                fi, j = divmod(int(pid), 1000)
                return split_dump(files[idx_files[fi]][2])[1][j]
            exp_blocks = []
            for b in [x for x in bs.split(",") if x]:
                pi, src, cid = b.split(":")
                fi, k = divmod(int(cid), 1000)
                bd = split_dump(files[idx_files[fi]][2])[2][k]
                exp_blocks.append(re.sub(r"^B\{pi=\d+", "B{pi=%s" % pi, bd))
            if not exp_blocks:
                expected = None
            else:
                a, b_, c = ver.split(".")
                fd = "F{maj=%s,min=%s%s}" % (a, b_, "" if c == "n" else ",priv=" + c)
                expected = " ".join([fd + "".join(pdump(p) for p in ps.split(",") if p)] + exp_blocks + ["EOF"])
            got = rd[2:] if rd and rd.startswith("I ") else rd
            data_len = os.path.getsize(out) if os.path.exists(out) else -1
            bad = None
            if expected is None:
                if data_len > 0 and out not in files:           # (an in-place output that receives nothing keeps being the input it was)
                    bad = ("merge:data-without-blocks", {"why": "no block was to be merged, yet the output holds %d bytes" % data_len})
            elif got != expected:
                bad = ("merge:content", {"library reader(output)": (got or "")[:1500], "expected": expected[:1500]})
            elif lg is not None and lg[2:].split(" #")[0] != expected:
                bad = ("merge:independent-reader", {"independent reader(output)": lg[:1500], "expected": expected[:1500]})
            if bad and bad[0] not in seen:
                seen.add(bad[0]); bad[1]["model"] = ma[:600]
                run.spec_fail.append((bad[0], case_txt[:8000], bad[1]))
            # cdns-itemcount on the merged output
            if expected is not None and not bad and ci % (3 if quick else 1) == 0:
                counts = [block_items(b) for b in exp_blocks]
                tot = [sum(c[i] for c in counts) for i in range(3)]
                for opts in ([], ["-b"], ["-p"], ["-b", "-p"]):
                    rr = run_tool(tools["cdns-itemcount"], opts + [out])
                    nums = [int(x) for x in re.findall(r"\d+", rr.stdout)] if rr else None
                    if "-b" in opts:
                        want = []
                        for bi, c in enumerate(counts):
                            want += ([bi] if "-p" in opts else []) + list(c)
                    else:
                        want = tot
                    if rr is None or rr.returncode != 0 or nums != want:
                        sig = "itemcount:" + "".join(opts)
                        if sig not in seen:
                            seen.add(sig)
                            run.spec_fail.append((sig, "cdns-itemcount %s <file %s>" % (" ".join(opts), open(out, "rb").read().hex()[:4000]),
                                                  {"stdout": (rr.stdout if rr else "timeout")[:400], "expected numbers": want[:60]}))
            # the concrete merged blocks: for merges of readable, complete inputs the bytes of every block in the output must be the
            # block the model re-writes (Model.ReadBlock.ofVal -> Builder.toVal with the shifted parameters index: the value
            # Props.C18.merged_block_same_records speaks about), up to the order of the address-event array
            if expected is not None and not bad and run.driver_ok and all(k == "ok" for k, _, _ in files.values()) and len(mrgb_jobs) < (40 if quick else 1000):
                try:
                    top, _e = cborgen.parse(open(out, "rb").read())
                    got_blocks = [open(out, "rb").read()[c.start:c.end] for c in top.children[2].children]
                except Exception:
                    got_blocks = None
                # offsets: the first accepted input keeps its indexes, every later accepted input is appended
                accepted = []
                for b in [x for x in bs.split(",") if x]:
                    pass
                offs, total, seen_names, first_ver = {}, 0, [], None
                for n in names:
                    kind, data, dump = files[n]
                    fdump, ps_, bs_, tail_ = split_dump(dump)
                    ver_ = re.match(r"F\{[^}]*\}", fdump).group(0)
                    if first_ver is None:
                        first_ver = ver_; offs[n] = 0; total = len(ps_)
                    elif ver_ != first_ver:
                        offs[n] = None
                    else:
                        offs[n] = total; total += len(ps_)           # (a name listed twice: the later entry of block_indexes wins)
                if got_blocks is not None:
                    mrgb_jobs.append((case_txt, [(n, offs[n], files[n][1]) for n in names if offs[n] is not None], got_blocks))
            shutil.rmtree(os.path.dirname(out), ignore_errors=True)
        # run the model on the collected merges
        lines_m = []
        for case_txt, parts, got_blocks in mrgb_jobs:
            for n, off, data in parts:
                lines_m.append("mrgb %d %s" % (off, data.hex()))
        ans_m = G.run_driver(lines_m) if lines_m else []
        k = 0
        for case_txt, parts, got_blocks in mrgb_jobs:
            exp_blocks, okm = [], True
            for n, off, data in parts:
                a = ans_m[k]; k += 1
                if a is None or not a.startswith("M"):
                    okm = False; continue
                exp_blocks += [bytes.fromhex(h) for h in a[2:].split(",") if h]
            if not okm:
                continue
            run.count("merged blocks compared with the model's re-written blocks (bytes)")
            same = len(exp_blocks) == len(got_blocks) and all(E._canon_block(x) == E._canon_block(y) for x, y in zip(exp_blocks, got_blocks))
            if not same and len(run.model_fail) < 5:
                j = next((i for i in range(min(len(exp_blocks), len(got_blocks))) if E._canon_block(exp_blocks[i]) != E._canon_block(got_blocks[i])), -1)
                run.model_fail.append((case_txt[:6000], {"correspondence": "blocks cdns-merge wrote vs Model.ReadBlock.ofVal + Builder.toVal with the shifted index (mrgb)",
                                                        "blocks": [len(exp_blocks), len(got_blocks)], "first differing block": j,
                                                        "model": exp_blocks[j].hex()[:1500] if 0 <= j else "", "tool": got_blocks[j].hex()[:1500] if 0 <= j else ""}))
    finally:
        shutil.rmtree(tmp, ignore_errors=True)


def replay(run, data):
    run.lean()
    for f in data.get("failures", []):
        print(f["case"][:400], str(f["detail"])[:600])
    return 0
