"""C06 — encoder emits the RFC 8949 shortest form, independent of buffer position.
Proof: Props/C06.lean.  Tie: real CdnsEncoder vs Lean model (M) and RFC 8949 spec (S)."""
import vlib
from checks.common import pair, shrink_list

B = [0, 1, 23, 24, 255, 256, 65535, 65536, 2**32 - 1, 2**32, 2**63 - 1, 2**63, 2**64 - 1]
UOPS = {"u8": 2**8, "u16": 2**16, "u32": 2**32, "u64": 2**64, "as": 2**64, "ms": 2**64}
SOPS = {"i8": 7, "i16": 15, "i32": 31, "i64": 63}


def headlen(n):
    return 1 if n < 24 else 2 if n < 256 else 3 if n < 65536 else 5 if n < 2**32 else 9


def fill_ops(f, k=1):
    """ops that leave exactly f bytes in a fresh encoder's staging buffer (f <= BUFFER_SIZE)"""
    if f == 0:
        return []
    n = f
    while n > 0 and headlen(n) + n > f:
        n -= 1
    if headlen(n) + n > f:      # f == 0 handled; f>=1 -> n=0 gives 1 byte
        n = 0
    ops = ["bsp:%d:%d" % (n, k)]
    ops += ["u8:0"] * (f - headlen(n) - n)
    return ops


def values_for(op):
    if op in UOPS:
        return [v for v in B if v < UOPS[op]]
    b = SOPS[op]
    vs = set()
    for v in B:
        if v < 2**b:
            vs.add(v)
        if v <= 2**b:
            vs.add(-v)
        if v + 1 <= 2**b:
            vs.add(-v - 1)
    return sorted(vs)


def gen_op(rng):
    kind = rng.choice(["as", "ias", "ms", "ims", "bs", "ts", "bsn", "tsn", "brk", "b", "u8", "u16", "u32", "u64",
                       "i8", "i16", "i32", "i64", "bs", "ts"])
    if kind in UOPS:
        lim = UOPS[kind]
        v = rng.choice([rng.choice(B), rng.randrange(lim), rng.randrange(min(lim, 70000))])
        return "%s:%d" % (kind, v % lim)
    if kind in SOPS:
        b = SOPS[kind]
        v = rng.choice([rng.choice(values_for(kind)), rng.randrange(-2**b, 2**b), rng.randrange(-300, 300) % (2**b)])
        return "%s:%d" % (kind, max(-2**b, min(2**b - 1, v)))
    if kind in ("bs", "ts"):
        L = rng.choice([0, 1, rng.randrange(0, 30), rng.randrange(0, 300), rng.randrange(0, 6200), 2048, 2047, 2049, 4096])
        if L <= 24 and rng.random() < 0.5:
            return "%s:%s" % (kind, "".join("%02x" % rng.randrange(256) for _ in range(L)) or "-")
        return "%sp:%d:%d" % (kind, L, rng.randrange(256))
    if kind == "b":
        return "b:%d" % rng.randrange(2)
    return kind


def sessions(run):
    rng = run.rng
    S = []
    quick = run.tier == "quick"
    allops = ["as", "ias", "ms", "ims", "bs", "ts", "bsn", "tsn", "brk", "b", "u8", "u16", "u32", "u64", "i8", "i16",
              "i32", "i64"]
    # 1. every fill level x every operation kind (values rotate through the boundary set)
    rot = 0
    for f in range(0, 2049):
        pre = fill_ops(f, f % 251)
        for op in allops:
            reps = 1 if quick else 3
            for _ in range(reps):
                rot += 1
                if op in UOPS or op in SOPS:
                    vs = values_for(op)
                    o = "%s:%d" % (op, vs[rot % len(vs)])
                elif op in ("bs", "ts"):
                    L = [0, 1, 23, 24, 255, 256, 2048 - f if f < 2048 else 5, 2049, 4100, 6144][rot % 10]
                    o = "%sp:%d:%d" % (op, max(0, L), rot % 256)
                elif op == "b":
                    o = "b:%d" % (rot % 2)
                else:
                    o = op
                S.append(("fill%d/%s" % (f, op), pre + [o, "u8:%d" % (rot % 256)]))
    run.count("sessions:fill-level x op (exhaustive fill 0..2048)", len(S))
    # 2. critical fill levels x every boundary value
    n0 = len(S)
    crit = list(range(0, 3)) + list(range(2036, 2049))
    for f in crit:
        pre = fill_ops(f, 3)
        for op in list(UOPS) + list(SOPS):
            for v in values_for(op):
                S.append(("crit%d/%s" % (f, op), pre + ["%s:%d" % (op, v), "brk"]))
    run.count("sessions:critical fill x boundary values", len(S) - n0)
    # 2b. the same for the strings: every head width a string length can ask for (1, 2, 3 and 5 bytes) at the critical fill levels
    n0 = len(S)
    for f in crit + [1000, 2030, 2033]:
        pre = fill_ops(f, 5)
        for op in ("bsp", "tsp"):
            for L in (0, 23, 24, 255, 256, 65535, 65536, 70001):
                S.append(("critstr%d/%s%d" % (f, op, L), pre + ["%s:%d:%d" % (op, L, (f + L) % 256), "brk"]))
    run.count("sessions:critical fill x string length classes (heads of 1/2/3/5 bytes)", len(S) - n0)
    # 3. all 2^8 values of the 8-bit overloads, all 2^16 of the 16-bit ones (packed, positions vary)
    n0 = len(S)
    for op, lo, hi in (("u8", 0, 256), ("i8", -128, 128)):
        for f in (0, 2046, 2047):
            S.append(("all8/%s@%d" % (op, f), fill_ops(f) + ["%s:%d" % (op, v) for v in range(lo, hi)]))
    step16 = 1 if not quick else 1
    for op, lo, hi in (("u16", 0, 65536), ("i16", -32768, 32768)):
        vals = list(range(lo, hi, step16))
        for c in range(0, len(vals), 2048):
            f = (2044 + c // 2048) % 2049
            S.append(("all16/%s@%d" % (op, f), fill_ops(f) + ["%s:%d" % (op, v) for v in vals[c:c + 2048]]))
    run.count("sessions:exhaustive 8/16-bit values", len(S) - n0)
    # 4. random call sequences
    n0 = len(S)
    nrand = 2000 if quick else 50000
    for i in range(nrand):
        ops = [gen_op(rng) for _ in range(rng.randrange(1, 40))]
        S.append(("rand%d" % i, ops))
    run.count("sessions:random sequences", len(S) - n0)
    return S


def compare(run, S, impl, model):
    bad = []
    for (name, ops), i, m in zip(S, impl, model):
        kinds = tuple(sorted({o.split(":")[0] for o in ops}))
        run.case("enc " + ";".join(ops) if len(ops) < 12 else (name, kinds, len(ops)), nontrivial=True)
        for o in ops:
            run.count("op:" + o.split(":")[0])
        if i is None or i.startswith("CRASH") or not i.startswith("I "):
            bad.append(("spec", name, ops, "implementation: %s" % i))
            continue
        if m is None:
            continue
        mm, ss = m.split("\t")
        if i[2:] != ss[2:]:
            bad.append(("spec", name, ops, "impl %s != RFC 8949 spec %s" % (i[2:], ss[2:])))
        elif i[2:] != mm[2:]:
            bad.append(("model", name, ops, "impl %s != model %s" % (i[2:], mm[2:])))
    return bad


def first_diff_kind(ops, impl_line, spec_line):
    try:
        ir = impl_line[2:].split("|")[0].split(",")
        sr = spec_line[2:].split("|")[0].split(",")
        for k, (a, b) in enumerate(zip(ir, sr)):
            if a != b:
                return ops[k].split(":")[0]
    except Exception:
        pass
    return "bytes"


def check(run):
    run.lean()
    run.rule = ("sessions = op sequences on a fresh CdnsEncoder; generated as (every fill level 0..2048) x (18 ops), "
                "critical fill levels x width-boundary values, all 2^8/2^16 values of the 8/16-bit overloads, random "
                "sequences; a case is distinct by its op list; all are non-trivial (each reaches at least one write)")
    run.trusted += ["translator T1 (g++-compiled constant printer)", "correspondence harness (harness/enc.cpp) and "
                    "Lean driver (Driver/Enc.lean)", "output writer replaced by an in-memory capture writer"]
    run.assumptions += ["CdnsEncoder used through its public write operations; output writer never fails (C16 covers failures)"]
    S = sessions(run)
    lines = ["enc " + ";".join(ops) for _, ops in S]
    impl, model = pair(run, "enc", lines)
    bad = compare(run, S, impl, model)
    run.exhaustive = True
    run.extra["exhaustive_over"] = "fill levels 0..2048 x 18 ops; all values of the 8- and 16-bit overloads"
    # one representative per (kind, first differing op kind); only those are shrunk
    reps = {}
    for (kind, name, ops, detail) in bad:
        i_line = next((x for (nm, o), x in zip(S, impl) if nm == name), "") if False else None
        key = (kind, detail.split(" != ")[0][:0])     # placeholder, refined below
        reps.setdefault((kind, name.split("/")[-1] if "/" in name else name[:4]), (kind, name, ops, detail))
        if len(reps) >= 6:
            break
    for kind, name, ops, detail in reps.values():
        def fails(cand):
            i, m = pair(run, "enc", ["enc " + ";".join(cand)])
            return bool(compare(vlib.Run(run.prop, run.tier, run.seed), [("x", cand)], i, m))
        small = shrink_list(ops, fails, max_steps=40) if len(ops) > 1 else ops
        vi, vm = pair(run, "enc", ["encv " + ";".join(small)])
        def trim(x):
            if not x:
                return x
            return "\t".join(part if len(part) < 300 else part[:60] + "…(%d chars)…" % len(part) + part[-120:] for part in x.split("\t"))
        detail2 = {"session": "enc " + ";".join(small), "implementation": trim(vi[0]), "model_and_spec": trim(vm[0]), "first": detail}
        if kind == "spec":
            spec_line = (vm[0] or "\t").split("\t")[-1]
            sig = "enc:" + first_diff_kind(small, vi[0] or "", spec_line)
            if not any(s0 == sig for s0, _, _ in run.spec_fail):
                run.spec_fail.append((sig, "enc " + ";".join(small), detail2))
        else:
            run.model_fail.append(("enc " + ";".join(small), detail2))


def replay(run, data):
    run.lean()
    cases = [f["case"] for f in data.get("failures", [])] + [c["case"] for c in data.get("correspondence_breaks", [])]
    lines = [c.replace("enc ", "encv ", 1) for c in cases]
    impl, model = pair(run, "enc", lines)
    rc = 0
    for l, i, m in zip(lines, impl, model):
        print(l); print("  impl :", i); print("  model:", m)
        if m is None or i[2:] != m.split("\t")[1][2:]:
            rc = 1
    return rc
