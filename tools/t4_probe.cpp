// T4 of tools/translate.py: SEMANTIC extraction of what the storage hints do, from the working tree.
//
// One query/response with EVERY member set (all eight sections, the first answer RR with ttl and rdata), one malformed
// message and one address event are buffered into a real exporter under a hint configuration, the output is read back by the
// library's reader, and the probe prints which members came back:
//   HINT <qr_hints> <sig_hints> <rr_hints> <other_hints> <presence bits>
// presence bits: the 39 members of GenericQueryResponse in declaration order, then ttl and rdata of query_answers[0],
// then "a malformed message was read back", "an address event was read back".
// Configurations: all bits set, none set, every single bit cleared, every single bit alone (per mask), 120 pseudo-random ones.
#include <cstdint>
#include <cstdio>
#include <sstream>
#include <string>
#include <vector>
#include <sys/mman.h>
#include <unistd.h>
#include "cdns.h"
using namespace CDNS;

static GenericResourceRecord rr(const char* name) {
    GenericResourceRecord r; r.name = name; r.classtype.type = 1; r.classtype.class_ = 1; r.ttl = 300; r.rdata = std::string("\x01\x02\x03\x04", 4);
    return r;
}

static GenericQueryResponse full() {
    GenericQueryResponse g;
    g.ts = Timestamp(100, 5); g.client_ip = std::string("\x0a\x00\x00\x01", 4); g.client_port = 1234; g.transaction_id = 77;
    g.server_ip = std::string("\x0a\x00\x00\x02", 4); g.server_port = 53;
    g.qr_transport_flags = static_cast<QueryResponseTransportFlagsMask>(1); g.qr_type = static_cast<QueryResponseTypeValues>(1);
    g.qr_sig_flags = static_cast<QueryResponseFlagsMask>(3); g.query_opcode = 0; g.qr_dns_flags = static_cast<DNSFlagsMask>(5);
    g.query_rcode = 0; ClassType ct; ct.type = 1; ct.class_ = 1; g.query_classtype = ct;
    g.query_qdcount = 1; g.query_ancount = 2; g.query_nscount = 3; g.query_arcount = 4; g.query_edns_version = 0; g.query_udp_size = 1232;
    g.query_opt_rdata = std::string("opt"); g.response_rcode = 3;
    g.client_hoplimit = 64; g.response_delay = -5; g.query_name = std::string("\x03www\x00", 5); g.query_size = 40; g.response_size = 80;
    g.bailiwick = std::string("\x03""com\x00", 5); g.processing_flags = static_cast<ResponseProcessingFlagsMask>(1);
    g.query_questions = std::vector<GenericResourceRecord>{ rr("qq") }; g.query_answers = std::vector<GenericResourceRecord>{ rr("qa") };
    g.query_authority = std::vector<GenericResourceRecord>{ rr("qu") }; g.query_additional = std::vector<GenericResourceRecord>{ rr("qd") };
    g.response_questions = std::vector<GenericResourceRecord>{ rr("rq") }; g.response_answers = std::vector<GenericResourceRecord>{ rr("ra") };
    g.response_authority = std::vector<GenericResourceRecord>{ rr("ru") }; g.response_additional = std::vector<GenericResourceRecord>{ rr("rd") };
    g.asn = std::string("AS1"); g.country_code = std::string("CZ"); g.round_trip_time = 9;
    return g;
}

static void probe(uint32_t qr, uint32_t sig, uint8_t rrh, uint8_t od) {
    BlockParameters bp;
    bp.storage_parameters.storage_hints.query_response_hints = qr;
    bp.storage_parameters.storage_hints.query_response_signature_hints = sig;
    bp.storage_parameters.storage_hints.rr_hints = rrh;
    bp.storage_parameters.storage_hints.other_data_hints = od;
    std::vector<BlockParameters> bps{ bp };
    FilePreamble fp(bps);
    int fd = memfd_create("t4", 0), keep = dup(fd);
    {
        CdnsExporter exp(fp, fd, CborOutputCompression::NO_COMPRESSION);
        exp.buffer_qr(full());
        GenericMalformedMessage mm; mm.ts = Timestamp(101, 0); mm.client_ip = std::string("\x0a\x00\x00\x03", 4); mm.mm_payload = std::string("junk");
        exp.buffer_mm(mm);
        GenericAddressEventCount ae; ae.ae_type = static_cast<AddressEventTypeValues>(0); ae.ip_address = std::string("\x0a\x00\x00\x04", 4);
        exp.buffer_aec(ae);
        exp.write_block();
    }
    std::string bytes; char buf[4096]; off_t off = 0; ssize_t n;
    while ((n = pread(keep, buf, sizeof buf, off)) > 0) { bytes.append(buf, n); off += n; }
    close(keep);
    std::string bits(43, '0');
    if (!bytes.empty()) {
        std::istringstream is(bytes);
        CdnsReader rd(is);
        bool eof = false;
        CdnsBlockRead blk = rd.read_block(eof);
        if (!eof) {
            bool end = false;
            GenericQueryResponse g = blk.read_generic_qr(end);
            if (!end) {
                bool p[41] = {
                    !!g.ts, !!g.client_ip, !!g.client_port, !!g.transaction_id, !!g.server_ip, !!g.server_port, !!g.qr_transport_flags,
                    !!g.qr_type, !!g.qr_sig_flags, !!g.query_opcode, !!g.qr_dns_flags, !!g.query_rcode, !!g.query_classtype,
                    !!g.query_qdcount, !!g.query_ancount, !!g.query_nscount, !!g.query_arcount, !!g.query_edns_version, !!g.query_udp_size,
                    !!g.query_opt_rdata, !!g.response_rcode, !!g.client_hoplimit, !!g.response_delay, !!g.query_name, !!g.query_size,
                    !!g.response_size, !!g.bailiwick, !!g.processing_flags, !!g.query_questions, !!g.query_answers, !!g.query_authority,
                    !!g.query_additional, !!g.response_questions, !!g.response_answers, !!g.response_authority, !!g.response_additional,
                    !!g.asn, !!g.country_code, !!g.round_trip_time,
                    g.query_answers && !g.query_answers->empty() && !!(*g.query_answers)[0].ttl,
                    g.query_answers && !g.query_answers->empty() && !!(*g.query_answers)[0].rdata };
                for (int i = 0; i < 41; i++) bits[i] = p[i] ? '1' : '0';
            }
            bool e2 = false; blk.read_generic_mm(e2); bits[41] = e2 ? '0' : '1';
            bool e3 = false; blk.read_generic_aec(e3); bits[42] = e3 ? '0' : '1';
        }
    }
    std::printf("HINT %u %u %u %u %s\n", qr, sig, (unsigned)rrh, (unsigned)od, bits.c_str());
}

int main() {
    const uint32_t QR = 0x3ffff, SG = 0x1ffff; const uint8_t RR = 3, OD = 3;
    try {
        probe(QR, SG, RR, OD);
        probe(0, 0, 0, 0);
        for (int i = 0; i < 18; i++) { probe(QR & ~(1u << i), SG, RR, OD); probe(1u << i, SG, RR, OD); }
        for (int j = 0; j < 17; j++) { probe(QR, SG & ~(1u << j), RR, OD); probe(QR, 1u << j, RR, OD); }
        for (int k = 0; k < 2; k++) { probe(QR, SG, RR & ~(1u << k), OD); probe(QR, SG, RR, OD & ~(1u << k)); }
        probe(QR, SG, 0, 0);
        // 120 pseudo-random configurations (fixed linear congruential sequence): several bits cleared at once, in every mask
        uint64_t x = 0x9E3779B97F4A7C15ull;
        for (int i = 0; i < 120; i++) {
            x = x * 6364136223846793005ull + 1442695040888963407ull; uint32_t a = (uint32_t)(x >> 33) & QR;
            x = x * 6364136223846793005ull + 1442695040888963407ull; uint32_t b = (uint32_t)(x >> 33) & SG;
            x = x * 6364136223846793005ull + 1442695040888963407ull; uint8_t c = (uint8_t)((x >> 40) & 3), d = (uint8_t)((x >> 50) & 3);
            probe(a, b, c, d);
        }
    } catch (std::exception& e) {
        std::printf("ERROR %s\n", e.what());
        return 1;
    }
    return 0;
}
