#!/usr/bin/env python3
"""re-run the stored seeded changes (seeded/<name>/patch.diff) against the CURRENT /repo HEAD with the CURRENT checks.
usage: seedsweep.py [--reconfirm] [--verif DIR] [name ...]         (default: every directory under seeded/)
  for each change: git -C /repo apply patch.diff; quick check of its own property (behaviour-preserving rewrites: also the
  checks of the properties anchored in the files it touches); git -C /repo checkout -- . ; the outcome is written to
  seeded/<name>/meta.json under "final" and summarised on stdout.
  --reconfirm: first re-establish in a scratch worktree of HEAD (/tmp/sweepwt, removed afterwards) that the unit tests pass
  with the change and that the demonstration fails with it and passes without it (used for patches re-based after a fix)."""
import glob, json, os, re, shutil, subprocess, sys, time

VERIF = os.path.dirname(os.path.dirname(os.path.abspath(__file__)))
args = sys.argv[1:]
reconfirm = "--reconfirm" in args
args = [a for a in args if a != "--reconfirm"]
run_from = VERIF
if "--verif" in args:
    i = args.index("--verif"); run_from = args[i + 1]; del args[i:i + 2]
REPO = "/repo"
if "--repo" in args:          # (a worktree of /repo at the same HEAD, so that several sweeps can run side by side)
    i = args.index("--repo"); REPO = args[i + 1]; del args[i:i + 2]
shard = None
if "--shard" in args:
    i = args.index("--shard"); shard = tuple(int(x) for x in args[i + 1].split("/")); del args[i:i + 2]
names = args or sorted(os.path.basename(d) for d in glob.glob(os.path.join(VERIF, "seeded", "C*")) if os.path.isdir(d))
if shard:
    names = [n for k, n in enumerate(names) if k % shard[1] == shard[0]]
MAP = {"cdns_encoder": "C06 C10 C01 C02 C13", "cdns_decoder": "C07 C05 C03 C08", "block.": "C01 C02 C04 C11 C12 C19 C17",
       "block_table": "C11 C19", "cdns.h": "C12 C13 C02 C01 C10", "cdns.cpp": "C05 C01 C08 C18", "file_preamble": "C09 C04 C02",
       "writer": "C14 C15 C16", "timestamp": "C17 C01", "interface": "C03 C01", "bin/": "C18 C03 C15", "hash": "C11 C19 C03"}


def sh(cmd, cwd=None, timeout=3600):
    p = subprocess.run(cmd, shell=True, cwd=cwd, stdout=subprocess.PIPE, stderr=subprocess.STDOUT, text=True, errors="replace", timeout=timeout)
    return p.returncode, p.stdout


def run_check(prop):
    t0 = time.time()
    rc, out = sh(("CDNS_REPO=%s " % REPO if REPO != "/repo" else "") + "python3 tools/check.py %s --tier quick" % prop, cwd=run_from)
    viol = [l for l in out.splitlines() if l.startswith("VIOLATION")]
    res = {"exit": rc, "violation_line": viol[0] if viol else None, "summary": out.strip().splitlines()[-1][:300] if out.strip() else "",
           "wall_s": round(time.time() - t0, 1)}
    if viol:
        rp = viol[0].split("replay=")[1].split()[0]
        try:
            d = json.load(open(rp))
            res["signatures"] = [f["signature"] for f in d.get("failures", [])][:8]
            res["broken_obligations"] = [b["name"] if isinstance(b, dict) else b[0] for b in d.get("broken_obligations", [])][:6]
            os.remove(rp)
        except Exception:
            pass
    return res


def confirm(name, d, patch):
    wt = "/tmp/sweepwt%s" % ("" if not shard else shard[0])
    if not os.path.isdir(wt):
        sh("git -C /repo worktree add --detach %s %s" % (wt, head_full))
        sh("cmake -G Ninja -B _build -DBUILD_TESTS=ON -DBUILD_DOC=OFF", cwd=wt)
    sh("git checkout -- src tests", cwd=wt)
    rc, out = sh("git apply %s" % patch, cwd=wt)
    if rc != 0:
        return {"applies": False, "why": out[-300:]}
    rc, out = sh("cmake --build _build 2>&1 | tail -3 && _build/tests/tests 2>&1 | tail -2", cwd=wt)
    tests = "PASSED  ] 98 tests" in out
    demos = [f for f in glob.glob(os.path.join(d, "*_demo.*")) if not f.endswith(".bin")]
    def demo():
        if not demos:
            return None
        f = demos[0]
        if f.endswith(".cpp"):
            rc, out = sh("g++ -std=gnu++14 -msse4 -O1 -I%s/src %s %s/src/*.cpp -lz -llzma -lpthread -o /tmp/sweep_demo.bin" % (wt, f, wt))
            if rc != 0:
                return None
            rc, out = sh("cd %s && timeout 600 /tmp/sweep_demo.bin" % d)
            return rc
        rc, out = sh("cd %s && timeout 900 bash %s %s/_build" % (wt, f, wt))
        return rc
    with_ = demo()
    sh("git checkout -- src tests", cwd=wt)
    sh("cmake --build _build 2>&1 | tail -1", cwd=wt)
    without = demo()
    return {"applies": True, "tests_pass_with_change": tests, "demo_with_change": with_, "demo_without_change": without,
            "confirmed": bool(tests and with_ not in (0, None) and without == 0)}


head = sh("git -C %s rev-parse --short HEAD" % REPO)[1].strip()
head_full = sh("git -C %s rev-parse HEAD" % REPO)[1].strip()
vcommit = sh("git -C %s rev-parse --short HEAD" % VERIF)[1].strip()
rc, out = sh("git -C %s status --porcelain --untracked-files=no" % REPO)
if out.strip():
    print(REPO, "is not clean:", out); sys.exit(4)
summary = []
for name in names:
    d = os.path.join(VERIF, "seeded", name)
    mp = os.path.join(d, "meta.json")
    patch = os.path.join(d, "patch.diff")
    if not os.path.exists(mp) or not os.path.exists(patch):
        continue
    meta = json.load(open(mp))
    prop = meta["property"]
    safe = "safe" in name.split("-", 1)[1]
    final = {"repo_head": head, "verif_commit": vcommit, "when": time.strftime("%Y-%m-%d %H:%M:%S")}
    if reconfirm and not safe:
        final["reconfirmed_on_head"] = confirm(name, d, patch)
    rc, out = sh("git -C %s apply %s" % (REPO, patch))
    if rc != 0:
        final["applies_to_head"] = False
        final["why"] = out[-300:]
        print(name, "patch does not apply to HEAD", flush=True)
    else:
        final["applies_to_head"] = True
        try:
            props = [prop]
            if safe:
                txt = open(patch).read()
                for k, v in MAP.items():
                    if re.search(r"^\+\+\+ b/src/.*" + re.escape(k), txt, re.M):
                        props += [p for p in v.split() if p not in props]
            final["checks"] = {p: run_check(p) for p in props}
        finally:
            sh("git -C %s checkout -- ." % REPO)
        flagged = [p for p, r in final["checks"].items() if r["exit"] != 0 or r["violation_line"]]
        final["flagged_by"] = flagged
        print(name, ("ALARMS (false): %s" % flagged) if safe else ("caught_by: %s" % flagged),
              (" reconfirmed=%s" % final["reconfirmed_on_head"].get("confirmed")) if "reconfirmed_on_head" in final else "", flush=True)
    meta["final"] = final
    json.dump(meta, open(mp, "w"), indent=1)
for w in glob.glob("/tmp/sweepwt%s" % ("" if not shard else shard[0])):
    sh("git -C /repo worktree remove --force %s" % w)
print("SWEEP-DONE", flush=True)
