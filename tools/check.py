#!/usr/bin/env python3
"""Single entry point:  python3 tools/check.py <Cxx> --tier quick|thorough [--replay file]"""
import argparse, importlib, json, os, sys, traceback
sys.path.insert(0, os.path.dirname(os.path.abspath(__file__)))
import vlib


def main():
    ap = argparse.ArgumentParser()
    ap.add_argument("prop")
    ap.add_argument("--tier", default=os.environ.get("VERIF_TIER", "quick"))
    ap.add_argument("--replay", default=None)
    a = ap.parse_args()
    tier = a.tier if a.tier in ("quick", "thorough") else "quick"
    try:
        seed = int(os.environ.get("VERIF_SEED", "0"))
    except ValueError:
        seed = 0
    run = vlib.Run(a.prop, tier, seed)
    try:
        mod = importlib.import_module("checks." + a.prop.lower())
    except Exception:
        run.obligation("machinery:check module loads", False, traceback.format_exc()[-3000:])
        return run.finish()
    if a.replay:
        return mod.replay(run, json.load(open(a.replay)))
    try:
        mod.check(run)
    except vlib.BuildError as e:
        run.obligation("build:harness from /repo working tree", False, str(e)[-3000:])
    except Exception as e:   # machinery failure is never silently a pass
        run.obligation("machinery:check ran to completion", False, traceback.format_exc()[-3000:])
    return run.finish()


if __name__ == "__main__":
    sys.exit(main())
