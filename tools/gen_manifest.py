#!/usr/bin/env python3
"""writes MANIFEST.json from the table below (kept in one place so it is always schema-valid)"""
import json, os
HERE = os.path.dirname(os.path.abspath(__file__))
VERIF = os.path.dirname(HERE)
props = [json.loads(l) for l in open(os.path.join(VERIF, "properties.jsonl"))]
ids = [p["id"] for p in props]

CLAIMED = {
    "C06": dict(
        text="Lean 4 theorems over an executable model of CdnsEncoder (staging buffer, write_int, all 18 write "
             "operations, write_string loop) proved against an RFC 8949 specification for every reachable buffer "
             "state, argument and call sequence (enc_step_spec, enc_run_spec, encoder_output). The model is tied to "
             "the working tree by a translator (buffer size, major-type codes) and a differential correspondence run "
             "(real encoder vs model vs spec: every fill level x op, all 8/16-bit values, boundary values, random sequences).",
        note="Trusted: Lean kernel; axioms propext, Classical.choice, Quot.sound; translator T1; harness/enc.cpp and "
             "Driver/Enc.lean; output writer abstracted as an append-only sink (failures are C16).",
        technique="Lean 4 proof over hand-written model + translator-regenerated constants + differential correspondence",
        design="§4 C06"),
    "C17": dict(
        text="Lean 4 theorems over a model of Timestamp (explicit uint64/int64 arithmetic) against unbounded-integer "
             "instants: offset_exact, add_inverse, add_refuses (all int64 offsets incl. INT64_MIN), rate_zero, lt_iff/le_iff, "
             "addTimeOffset_no_overflow, and the block invariant earliest_le proved by induction over all arrival orders of "
             "timed/untimed records (offsets_nonneg_and_recovered). Tied to the code by differential runs of the real "
             "Timestamp and CdnsBlock (grid, boundaries, random, block histories written and read back) under UBSan.",
        note="Trusted: Lean kernel + propext/Classical.choice/Quot.sound; harness/ts.cpp, Driver/Ts.lean; two's-complement "
             "uint64->int64 conversion of g++/x86-64; UBSan for undefined arithmetic.",
        technique="Lean 4 proof (arithmetic lemmas + invariant by induction over block operations) + differential correspondence",
        design="§4 C17"),
}
REASON_PENDING = "check not built yet in this revision (work in progress; see DESIGN.md §8 build order)"

checks = []
for i in ids:
    if i in CLAIMED:
        c = CLAIMED[i]
        checks.append({
            "property_id": i,
            "quick_cmd": f"python3 tools/check.py {i} --tier quick",
            "thorough_cmd": f"python3 tools/check.py {i} --tier thorough",
            "evidence_file": f"/verif/evidence/{i}.json",
            "replay_cmd_template": f"python3 tools/check.py {i} --replay {{path}}",
            "engine": "lean4+correspondence",
            "level_claimed": {"category": c.get("category", "proof"), "text": c["text"], "design_ref": c["design"]},
            "level_note": c["note"],
            "technique": c["technique"],
        })
na = [{"property_id": i, "reason": REASON_PENDING} for i in ids if i not in CLAIMED]
m = {
    "version": 1,
    "setup_cmd": "python3 tools/setup.py",
    "hooks": {
        "guard": "CDNS_VERIF",
        "enable": "no source hooks: the harness compiles /repo/src/*.cpp with -DCDNS_VERIF -fno-access-control (harness files only) and interposes syscalls in its own executable",
        "baseline_off_cmd": "cmake --build /repo/_build && ctest --test-dir /repo/_build -j8 --timeout 900",
        "source_commits": [],
        "add_only": True,
    },
    "engines": [{"name": "lean4+correspondence", "path": "tools/check.py", "serves_properties": sorted(CLAIMED),
                 "kind_free_text": "Lean 4 proofs (lean/CdnsVerif/Props) over executable models, tied to /repo by a translator (tools/translate.py) and a differential correspondence harness (harness/*.cpp vs lean driver)"}],
    "checks": checks,
    "not_applicable": na,
    "notes": "See DESIGN.md. known_findings.txt lists recorded findings and fixed defects.",
}
json.dump(m, open(os.path.join(VERIF, "MANIFEST.json"), "w"), indent=1)
print("claimed:", sorted(CLAIMED), "pending:", len(na))
