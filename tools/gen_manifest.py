#!/usr/bin/env python3
"""writes MANIFEST.json from the table below (kept in one place so it is always schema-valid)"""
import json, os
HERE = os.path.dirname(os.path.abspath(__file__))
VERIF = os.path.dirname(HERE)
props = [json.loads(l) for l in open(os.path.join(VERIF, "properties.jsonl"))]
ids = [p["id"] for p in props]

CLAIMED = {
    "C06": dict(
        text="Lean 4 theorems over an executable model of CdnsEncoder (staging buffer, write_int, all 18 write "
             "operations, write_string loop) proved against an RFC 8949 specification for every reachable buffer "
             "state, argument and call sequence (enc_step_spec, enc_run_spec, encoder_output). The model is tied to "
             "the working tree by a translator (buffer size, major-type codes) and a differential correspondence run "
             "(real encoder vs model vs spec: every fill level x op, all 8/16-bit values, boundary values, random sequences).",
        note="Trusted: Lean kernel; axioms propext, Classical.choice, Quot.sound; translator T1; harness/enc.cpp and "
             "Driver/Enc.lean; output writer abstracted as an append-only sink (failures are C16).",
        technique="Lean 4 proof over hand-written model + translator-regenerated constants + differential correspondence",
        design="§4 C06"),
    "C17": dict(
        text="Lean 4 theorems over a model of Timestamp (explicit uint64/int64 arithmetic) against unbounded-integer "
             "instants: offset_exact, add_inverse, add_refuses (all int64 offsets incl. INT64_MIN), rate_zero, lt_iff/le_iff, "
             "addTimeOffset_no_overflow, and the block invariant earliest_le proved by induction over all arrival orders of "
             "timed/untimed records (offsets_nonneg_and_recovered). Tied to the code by differential runs of the real "
             "Timestamp and CdnsBlock (grid, boundaries, random, block histories written and read back) under UBSan. Histories also continue on copies of the block (copy construction / assignment mid-history). C01.record_times_recovered lifts the invariant to every block the builder model produces. add_result_normal / reoffset_recovers: whatever add_time_offset returns on an in-range reference is in range and normalised, and get_time_offset of it followed by add_time_offset gives it back (negative offsets included) - the arithmetic behind write-after-read (C18). Timestamps that are not normalised (ticks >= rate) in the differential runs: refused offsets leave both members unchanged.",
        note="Trusted: Lean kernel + propext/Classical.choice/Quot.sound; harness/ts.cpp, Driver/Ts.lean; two's-complement "
             "uint64->int64 conversion of g++/x86-64; UBSan for undefined arithmetic.",
        technique="Lean 4 proof (arithmetic lemmas + invariant by induction over block operations) + differential correspondence",
        design="§4 C17"),
    "C07": dict(
        text="Lean 4 theorems over an executable model of CdnsDecoder written as decoder programs (free monad over next/peek): every "
             "read_* accepts every well-formed RFC 8949 encoding of its type at every head width, definite or chunked "
             "(readUnsigned_accepts ... readMapStart_accepts_indef), and skip_item consumes exactly one item of ANY well-formed shape "
             "(skip_exact, by structural induction over the RFC 8949 syntax incl. nesting, tags, floats, indefinite containers; "
             "skip_exact_linear: fuel linear in the input). Window independence comes from C05.runW_refines. Tied to the code by "
             "differential runs of the real decoder (full-grammar items, every byte of an item on the 65535 boundary, deep nesting).",
        note="Trusted: Lean kernel + standard axioms; translator T1 (major-type codes, buffer size); harness/dec.cpp, Driver/Dec.lean; "
             "python generator ground truth as value oracle; std::istream modelled (Model/Window.lean).",
        technique="Lean 4 proof (structural induction over CBOR syntax) + differential correspondence", design="§4 C07"),
    "C01": dict(
        text="Lean 4, record level: records_resolve_to_projection / malformed_messages_read_back - over the block-building model "
             "(Model.Builder: hint guards, nine find-or-append tables, lists) and the model of the reader's index resolution (Model.Resolve), "
             "for EVERY record sequence and EVERY hint masks, resolving the stored query/responses (malformed messages) of the block built "
             "yields in order exactly the hint projections of the records buffered - every hint-enabled member equal, addresses/names/RDATA "
             "byte for byte, lists element by element - and stored_iff_nonempty. Lean 4, byte level: file_roundtrip - over one generic "
             "interpreter of the ~60 struct write/read functions (Model.Schema + preamble/block schemas regenerated from the source) a file "
             "laid out as the exporter lays it out is read back as exactly the preamble and raw blocks written, nothing left over, at any "
             "window offset (C05.runW_refines); built_file_roundtrip composes the two WITHOUT a per-input side condition: every block built from "
             "records whose members fit the C++ widths lies in the round-trip domain (build_conforms: slot-by-slot conformance of the 14 block "
             "structs + value bounds carried through all builder steps + index bounds from referential closure). record_times_recovered: every "
             "stored time of every built block is written as an offset < 2^63 from which add_time_offset recovers it exactly (the builder's "
             "time members refine the C17 model); address_event_totals and block_statistics_latest: counts and statistics for every record "
             "sequence. export_read_records / export_read_records_blocks close the chain in ONE statement: records buffered -> block(s) built -> bytes "
             "written -> bytes read (decoder model) -> block object (Model.ReadBlock.ofVal = CdnsBlockRead::read after the raw read: parameter-set "
             "selection, Timestamp check, table filling, time arithmetic) -> records returned by read_generic_qr/mm/aec through the bounds-checked "
             "accessors (records): no exception on the way, query/responses and malformed messages are the hint projections of those buffered in "
             "order with exact times, address-event totals and statistics as supplied - for any number of blocks and any block boundaries "
             "(ofVal_toVal: the block reader inverts the block writer; records_closed: on a closed block no accessor throws). "
             "Plus keys/hint bits = RFC 8618, time offsets (C17), "
             "encoder (C06), exporter conservation (C12). Tie to the code on every session: model block bytes = library block bytes (bld), "
             "model reader dump = library reader dump and model writer bytes = library bytes (blk), Lean projection = the records the library "
             "reader returns (prjd), Model.ReadBlock on the bytes of every output = the records the library reader returns (rdq; also on rewritten, "
             "foreign-writer and mutated files in C08/C18/C03); and the three-way differential with the independent Lean RFC 8618 reader and the reference expectation. "
             "block_schemas_match_source: the schema table of the twelve item/table-entry structs IS what translator T3 extracts on every run by RUNNING "
             "the working tree's own write()/read() functions (keys, order, kind and width written, width the reader keeps of 2^64-1, members the reader insists on).",
        note="What is proved is about the models: Model/Builder.lean, Model/Resolve.lean, Model/ReadBlock.lean are hand-written (Model/Structs.lean is re-checked against the T3 extraction) and tied to the "
             "code by the bld/blk/prjd/rdq correspondences on every session; the exporter's choice of block boundaries is C12's abstract model. "
             "Bounds of the theorems' domain: members within the C++ member widths, < 2^64 records, <= 2^32 entries per table, representable "
             "times. Trusted besides: RFC transcription, tools/refexp.py + cdnsgen.py, harness/file.cpp.",
        technique="Lean 4 proof (record-level export->read over builder + resolver models; generic schema round trip at byte level) + byte-exact model/implementation correspondence + three-way differential", design="§4 C01"),
    "C02": dict(
        text="Lean 4, framing (exporter model, every call history): an output without blocks gets zero bytes, otherwise header once + blocks + "
             "exactly one break when closed (output_shape), preamble covers the blocks' parameter sets under the documented duty (params_cover), "
             "framing bytes are the RFC 8949 encodings (C06). Lean 4, inner structure (schema model): file_is_one_wellformed_item - a closed "
             "output holding conforming preamble/blocks is the encoding of exactly one well-formed item whose declared array/map lengths are "
             "the members present; file_parses_back / strict_parser_inverts_encoding - the strict RFC 8949 parser returns exactly that item "
             "(parser is a left inverse of the encoding for EVERY well-formed item); mandatory_members_present; built_block_indices_closed - in every "
             "block built from records (any hints, any sequence) every stored index addresses an entry of the block's own tables and no entry is "
             "unreferenced (over the model of the table-building code). Tie: the model writer reproduces "
             "the library's bytes on every output (blk driver), incl. present-but-empty structures and directly built blocks; closed indices "
             "and schema validity by the validator Spec.Cdns.interpret on every output.",
        note="Index closure is proved for blocks built through the generic record interface (Model.Builder, tied byte for byte); for blocks an "
             "application assembles item by item it is validated per output by Spec.Cdns.interpret. Trusted: Model/Structs.lean schema table, RFC transcription.",
        technique="Lean 4 proof (invariants over exporter operations; schema-level well-formedness; parser inversion) + strict Lean parser/validator as oracle", design="§4 C02"),
    "C04": dict(
        text="Lean 4 theorems over Model.Builder, a transliteration of the block-building path (add_question_response_record(Generic...), "
             "add_address_event_count, add_malformed_message, add_generic_qlist/rrlist, the nine find-or-append table functions), for EVERY "
             "record sequence and EVERY hint masks: hints_honoured (every member of every stored Q/R, signature entry and RR entry is present "
             "only if its hint bit is set; address events / malformed messages and their data table only when enabled), "
             "output_members_honour_hints (same on the raw value written), tables_reachable (every table entry is referred to by a stored "
             "record or another entry: nothing enters a table on behalf of a member that is not stored), tables_closed (every stored index "
             "addresses an existing entry); hint bits = RFC 8618 and pairwise distinct (translator-regenerated); hint_probes_match_projection: the RFC reading of the hints "
             "(project) lets through exactly the members the working tree's own exporter+reader return for a full record under 197 configurations "
             "(all bits, none, each bit cleared, each bit alone, per mask; translator T4 re-runs the probe on every run). Tie: the block the model "
             "builds + the model writer = the bytes of the block the library wrote for the same records and hints (bld driver, up to the "
             "hash-map order of the address-event array); plus the RFC projection via the independent Lean reader (single bit cleared/alone, "
             "random masks, unreachable = 0) and sessions editing hints in place through get_active_block_parameters_ref() before a rotation. Also several parameter sets switched back and forth between blocks, and application-built blocks written, cleared, refilled and written again.",
        note="Trusted: Model/Builder.lean is hand-written (tied byte for byte by the bld correspondence); generic record values are unbounded "
             "naturals in the model (the C++ members are fixed-width); tools/cdnsgen.py project_qr, Spec/Cdns.lean reachability as second oracle.",
        technique="Lean 4 proof (invariants by induction over record sequences: hint guards, reachability, referential closure) + byte-exact model/implementation correspondence", design="§4 C04"),
    "C10": dict(
        text="Lean 4: returns_sum - for every call history the size of each output equals the sum of values returned while it was open "
             "(rotation's return counted for the output it closes), destroy adds one byte; encoder_returns_lengths via C06. Tied by "
             "sessions with rotations and all compression modes (python gzip/lzma decompression).",
        note="Trusted: block/header sizes are parameters of the exporter model (their exactness is the encoder-level theorem + struct writers "
             "summing encoder returns, tied by correspondence).",
        technique="Lean 4 proof (induction over call history) + differential correspondence", design="§4 C10"),
    "C12": dict(
        text="Lean 4 theorems over the exporter model for every parameter list and call history: conservation_qr/mm (written blocks ++ "
             "buffered block = storable records in order, once), aec_totals, flush_rule (block written iff an array reaches max(1,max)), "
             "blocks_bounded (every written block non-empty and within its own limit), counters_match. Tied by EXHAUSTIVE short call "
             "sequences (length<=4 quick / 5 thorough over 9 ops x 4 sizes x 3 hint settings) comparing returns, counters and block "
             "structure of the real exporter with the Lean model and the reference, plus random long sessions. Maxima around 2^32 and up to 2^64-1 included.",
        note="Trusted: records abstracted to ids + stored flag (projection is C04); harness/file.cpp, Driver/Exm.lean, tools/refexp.py.",
        technique="Lean 4 proof (invariants by induction over exporter operations) + exhaustive bounded correspondence", design="§4 C12"),
    "C13": dict(
        text="Lean 4: closed_immutable (a rotated output never changes), output_shape (empty or header+blocks+one break), params_cover "
             "(under the documented duty), carry_over; conservation across outputs from C12. Tied by random sessions with rotations to "
             "names/descriptors, export 0/1, consecutive empty rotations, late parameter sets, all compression modes. Also rotations to the name of the output that is open (the closed output must be visible and complete before it is replaced) and outputs of every size modulo the staging buffer.",
        note="Trusted: as C12; rotate_output(int) on a name-opened exporter (documented misuse) is outside the model.",
        technique="Lean 4 proof (invariants over exporter operations) + differential correspondence", design="§4 C13"),
    "C05": dict(
        text="Lean 4: readToBuffer_spec and runW_refines - the real window/istream state machine refines the plain remaining-input view for "
             "EVERY decoder program (end-of-input thrown exactly when no byte is left: empty input, k*65535 bytes, unreadable stream; never a "
             "stale byte); run_append/run_prefix (extension stability of every program); prefix_blocks_sound / prefix_blocks / prefix_blocks_inv "
             "(generic readers); truncated_blocks / truncated_output - the concrete model of CdnsReader::read_block over the block schema, on a "
             "block array cut at ANY byte offset, returns exactly the blocks wholly inside the cut (for the exporter's encoding and every "
             "equivalent well-formed re-encoding) and then CdnsDecoderEnd; readBlock_cut - a cut inside a block never yields a value. Tied by "
             "decoder-level runs at the buffer multiples and by cutting exporter-produced files of 1-4 windows at every point around window "
             "multiples and block boundaries: library = expectation = schema model (blkc driver) on every cut. end_is_sticky / after_end_every_call_ends: once read_to_buffer has reported the end, the state it leaves makes every later call report it again (runWS keeps the state across a throw); tied by sessions that go on after E:end, multi-byte arguments straddling window multiples, truncated strings read and skipped, unreadable streams of four kinds, files with unknown members cut everywhere. read_block_again_ends: at reader level, after the reported end every further read_block() - on an indefinite block array or a definite one with blocks outstanding - reports it again, never a block, never eof (the reader state advances only after a successful read); tied by go-on sessions (s+/f+) on both layouts at cuts around every block boundary.",
        note="Trusted: std::istream read/gcount/eof semantics modelled in Model/Window.lean; Model/File.lean readBlock transcribes "
             "CdnsReader::read_block (tied by the blkc correspondence).",
        technique="Lean 4 proof (refinement + generic theorems over all decoder programs + concrete block reader) + differential correspondence / cut-point enumeration", design="§4 C05"),
    "C08": dict(
        text="Lean 4, struct level (generic interpreter Model.Schema, every schema; preamble and block trees are instances): read_denotes - on "
             "EVERY well-formed encoding the byte-level reader returns the denotation `denote k i`, a function of the data only (members looked "
             "up by key, head widths / definite-vs-indefinite / chunking invisible, unknown members ignored whatever they carry), and stops "
             "exactly behind the item; equivalent_encodings_read_equal; each rewrite of the property preserves the denotation at any depth: "
             "width_*, indef_*, chunked_*, unknown_member_ignored, member_order_irrelevant (any permutation, distinct keys), nested_array, "
             "nested_members. records_invariant: what the application observes of a block (block object built by CdnsBlockRead::read after the raw "
             "read, records returned by read_generic_qr/aec/mm, or the exception class: Model.ReadBlock.blockOutcome) is a function of the "
             "denotation - index resolution and time arithmetic never see the encoding. Decoder level: skip_exact for any well-formed unknown value, keys beyond int64 saturate (big_key_not_small). "
             "Tie: exporter-produced files rewritten by random compositions of all rewrites; library reader dump(original) = dump(rewritten) "
             "= schema-model reader on the rewritten file (sch/blk drivers) = Model.ReadBlock records (rdq driver); the independent Lean reader confirms each rewrite kept the meaning. RFC 8618-level rewrites too: table entries written twice, blocks of parameter set 0 without block-parameters-index.",
        note="Trusted: tools/cborgen.py rewrites, Spec/Cdns.lean, Model/Structs.lean schema table, Model/ReadBlock.lean (hand-written, tied by rdq). "
             "Duplicate keys inside one map (not well-formed CBOR) are outside the theorems.",
        technique="Lean 4 proof (reader computes a syntax-independent denotation; rewrite lemmas) + metamorphic differential testing", design="§4 C08"),
    "C09": dict(
        text="Lean 4: one generic interpreter of the struct write/read functions (Model/Schema) instantiated for FilePreamble -> BlockParameters -> "
             "StorageParameters -> StorageHints/CollectionParameters with keys regenerated from the source; theorems struct_roundtrip / "
             "preamble_roundtrip (read (write v) = v with nothing left over, for EVERY schema and conforming value, at any buffer offset via "
             "runW_refines) and struct_output_wellformed; preamble keys = RFC 8618; preamble_schemas_match_source: the five preamble schemas ARE what translator T3 "
             "extracts on every run by running the working tree's own write()/read() (keys, order, kind/width written, width kept by the reader, "
             "mandatory members, and the library's own read-then-write reproduces the all-members bytes). The model reader/writer is tied to the code by writing random "
             "preambles (versions 0..255, optional private version, 1..8 parameter sets, every optional subset, full-width integers, empty/long "
             "lists, arbitrary text, collection parameters absent/empty/partial/full) with the library and comparing bytes with the model writer "
             "and values with the library reader, the model reader and the independent Lean reader, member for member. Parameter sets are also handed over through add_block_parameters (some objects twice: the caller's object must stay intact); max_block_items 0 and 2^32.",
        note="Trusted: tools/t3_probe.cpp (the probe lists the members by name; kinds, keys, widths and optionality come from running the code); harness records.h renders every member.",
        technique="Lean 4 proof (generic schema round trip) + differential write/read against the model and an independent Lean reader", design="§4 C09"),
    "C11": dict(
        text="Lean 4 theorems over a model of BlockTable/KeyRef with explicit storage (any element type, any hash with HashOk): add_spec "
             "(returns the index of an equal entry; existing value -> same index, table unchanged; new value -> appended), add_idempotent, "
             "no_duplicates, distinct_distinct, stable (indices keep denoting the same value), clear_empty, never a dangling access on "
             "canonical tables. Tied by interleaved add/get/size/clear on the nine tables of real blocks (small pools, large domains, "
             "one-member toggles) vs the Lean model vs a dictionary reference; closure/isolation across flushes via the independent reader.",
        note="Trusted: equality/hash of the nine key types read the members the model says (validated by one-member-toggle pairs); CRC32 "
             "intrinsics treated as an arbitrary hash; std::unordered_map/std::deque semantics.",
        technique="Lean 4 proof (invariant 'canonical table' preserved by add) + differential correspondence", design="§4 C11"),
    "C19": dict(
        text="Lean 4 over the same storage-explicit table model: copy_canon, copy_like_fresh (the repaired copy IS the table built afresh from "
             "the same items), own_cell_only / copy_independent (a table with own references consults only its own storage: mutating, clearing "
             "or destroying the source cannot change the copy), add_frames_others (the copy never writes the source), and the refutation "
             "shallow_copy_dangles of the implicitly generated copy. Tied by histories of copy/move/assign/destroy/mutate over real "
             "CdnsBlockRead objects under ASan vs model vs value-semantics reference. Histories include items, block statistics (present/absent) and the three read cursors of CdnsBlockRead (a copy reads from the beginning and keeps reading after its source is gone).",
        note="Trusted: a block = nine tables + plain vectors/maps copied by value (the vectors are not modelled); AddressSanitizer exposes "
             "dangling references; std::deque reference stability on move.",
        technique="Lean 4 proof (frame/ownership invariant over an explicit heap) + differential correspondence under ASan", design="§4 C19"),
    "C14": dict(
        text="Lean 4: for EVERY streaming codec satisfying the contract Codec.Sound, the gzip/xz writer loops consume exactly the chunks "
             "written (write_consumes_all) and what reaches the inner writer decodes to them (compressed_equals_plain); the on-stack scratch "
             "buffer is bounded by 64 KiB for every chunk size (scratch_bounded); the contract is inhabited (storeCodec_sound). Decision on "
             "the implementation: identical call sequences on plain/gzip/xz writers (name and descriptor targets, chunks 0 B..8 MiB quick, "
             "64 MiB thorough, rotations); each compressed output must be one complete stream with its suffix decompressing (Python "
             "zlib/lzma) to the plain output; plus end-to-end exporter sessions. "
             "The model loops are tied to the code: deflate / lzma_code are interposed in the harness, every call logged, and the model - run against a "
             "codec that replays the recorded answers (driver cw) - must make exactly the calls the library made (bytes offered, finish flag, output "
             "space) and hand the same number of bytes to the inner writer.",
        note="Partial: zlib/liblzma satisfying the contract and loop termination (compressor progress) are assumed, validated only by "
             "decompression with independent implementations; no model-vs-implementation replay of the deflate calls yet.",
        technique="Lean 4 proof parametric in an abstract codec contract + differential decompression oracle", design="§4 C14"),
    "C15": dict(
        text="Lean 4: final_names_complete - in the syscall/file-system model of named outputs (open .part, data in ANY split into writes, "
             "close, rename; any number of outputs, repeated names, arbitrary initial file system) at EVERY crash point a final name holds "
             "the old file or a complete output. Tied by (1) the real syscall trace (write/writev/rename interposed) vs the model's "
             "canonical trace, file closed before rename; (2) real crash enumeration: _exit before the k-th syscall for every k of every "
             "scenario (plain/gzip/xz, rotations, rotation onto an existing name, destruction with/without buffered data). (3) the same guarantee when writes are refused or cut short instead of the process dying (every k, any output); (4) cdns-merge under strace: the final name is touched only by the closing rename, SIGKILL before each output-related call leaves the earlier file intact; stale .part files; outputs of every size modulo the staging buffer.",
        note="Partial: process death only (no fsync/power-loss ordering), rename(2) atomicity and libstdc++ ofstream trusted; fclose is not "
             "interposable, 'closed before rename' is read from /proc/self/fd.",
        technique="Lean 4 proof (trace invariant over all prefixes) + syscall-trace correspondence + exhaustive crash-point enumeration", design="§4 C15"),
    "C16": dict(
        text="Lean 4, the whole uncompressed descriptor stack as ONE state machine (Model.Stack: CdnsExporter's buffered block and block counter on "
             "CdnsEncoder's staging buffer with flush_buffer ANYWHERE on the bottom writer with m_failed, OS answers from a fault schedule): "
             "stack_failure_reported (for every API history, fault schedule and flush placement an output closed by rotate_output lost no byte "
             "unless an API call threw while it was open), stack_closed_output_is_complete_file (what the OS holds of such an output is nothing or exactly "
             "header ++ the non-empty blocks written ++ break: C13/C02 at the level of the system calls), stack_reported_once, stack_block_kept (an exception out of write_block()/a flushing buffer_*() leaves the "
             "records buffered, the one just handed over included), stack_recovery (after a reported failure rotate_output(healthy,false) returns "
             "normally with the records kept, write_block() writes header+block, the closing rotation leaves exactly header++block++break, "
             "nothing thrown). Tie of Model.Stack (driver stk, os layer mode stk): the same sessions on the real exporter with every fault point "
             "injected; the model's flushes are placed where the sizes of the real write() calls say they happened, block lengths measured on a "
             "copy of the buffered block; compared per call: threw or not, records buffered, block counter; per output: bytes the OS accepted. "
             "Lean 4 over the single writer layers: bw_failure_reported / nw_failure_reported (descriptor writer; named writer with "
             "an ofstream buffer flushed at arbitrary times): if no write and not the closing rotate threw, the OS holds every byte; "
             "bw_reported_once; bw_recovery / nw_recovery (rotation yields a fresh writer, does not rethrow a reported failure). Decision on "
             "the implementation: every fault point k (ENOSPC / EIO / short; single and persistent) of scripted scenarios x "
             "{name,descriptor} x {none,gzip,xz} injected through interposed write/writev; oracle: loss => exception no later than the closing "
             "rotate; throwing write_block keeps its records; rotate to a healthy destination succeeds; next write_block yields a valid file "
             "with the kept records (validated by the Lean reader). Also: destinations that cannot be opened (invalid descriptor, missing directory) and recovery from them; the output between two rotations stays empty; a block written to the output a throwing rotation had opened is not lost silently. Small state machines of the compressor and exporter layers across a throwing rotation (cw_write_after_rotation_is_not_dropped, ex_header_after_rotation; the pre-repair behaviour refuted by witness).",
        note="Partial: the composition is proved for uncompressed descriptor outputs; the compressor layer and the named writer's ofstream are "
             "separate models (CW, NW) composed only by fault injection. Interpretation: a rotate_output after an already REPORTED failure returns normally.",
        technique="Lean 4 proof over fault-schedule models + exhaustive fault-point injection via syscall interposition", design="§4 C16"),
    "C03": dict(
        text="Lean 4 per-layer theorems: every decoder byte access lies in a non-empty fetched window and the decoder sees exactly the "
             "remaining input (window_nonempty, C05.runW_refines); reservations from announced lengths are bounded by one buffer "
             "(reserve_bounded); timestamp arithmetic stays in int64 (C17.addTimeOffset_no_overflow), integer reads saturate (C07); "
             "skip_item is iterative with linear fuel (C07.skip_exact_linear); every index get_readable_dname reads/writes is in bounds for "
             "EVERY byte string (dname_in_bounds); termination in linear time on EVERY byte string, well-formed or not: value_reader_fuel_never_binds / "
             "skip_fuel_never_binds / file_reader_fuel_never_binds / block_reader_fuel_never_binds - the loops of read_array, of every struct "
             "reader, of read_string's chunks and of skip_item's levels are modelled with fuel, and above 2|input|+2 (skip: 3|input|+2) the result "
             "does not depend on it: every iteration consumes a byte or closes a level a consumed byte opened (the correspondence drivers run with "
             "4|input|+10, so what they report on hostile files is never a fuel artefact). Memory proportional to the input on EVERY byte string: value_size_bounded_by_input / "
             "file_values_bounded_by_input - the value materialised (one unit per scalar, string byte, list element, record member) plus the input left "
             "over never exceeds the input, whatever the length fields announce. Failing-input search on the implementation: valid files, structure-aware mutations "
             "(lying length heads up to 2^64-1, tree edits, truncation), byte mutations, nesting bombs, random bytes through reader + "
             "accessors + all renderers + block copies in-process under ASan/UBSan (allocation cap, alarm) and through the 5 CLI tools. Added after the seeded rounds: every numeric field x boundary value and every string x hostile payload (printf directives, NULs) through reader and tools; the largest single allocation request per input must stay proportional to it (sanitizer malloc hook); tables of look-alike entries must read as fast as same-shape controls (time).",
        note="Partial proof by nature: that every memory access of the C++ is one of the modelled kinds is established only by the "
             "sanitizer-instrumented search; hash-flooding cost not modelled; UBSan alignment check excluded (hash.h type-punned loads, x86).",
        technique="Lean 4 proofs of per-layer bounds + sanitizer-instrumented structure-aware mutation search", design="§4 C03"),
    "C18": dict(
        text="Lean 4 over a model of cdns-merge's two passes (any file system, any list of input names, repeats): merged_params_equal "
             "(every merged block refers to a parameter set equal to its source's), rejected_contribute_nothing / "
             "mismatch_contributes_nothing, blocks_in_order. Concretely for one merged block (Model.ReadBlock + Model.Builder.toVal): "
             "merged_block_same_records - a block read from ANY well-formed input, re-written by writer.write_block(block) under the shifted "
             "index and read from the merged file is the same block object (tables, items, times, counts, statistics) with the same records; "
             "remap_rate / absent_index_is_zero for the index arithmetic (reread_of_read_block: write-after-read is the identity on what is read). Tied by the real cdns-merge / cdns-itemcount binaries (sanitizer builds from "
             "the working tree) on tuples of 1..6 files with unreadable, empty, version-mismatched, truncated and duplicated members; "
             "merged output read by the library reader and the independent Lean reader vs the expectation assembled from the Lean "
             "model's structure; itemcount output vs independent counts for all option combinations; the bytes of every merged block = the block the model re-writes (mrgb driver). The pool also holds files as other writers lay them out (duplicate table entries, one address-event key in several items, item-less blocks, absent block-parameters-index, unknown members), twins differing only in tick rate or in collection parameters, private version 0 vs absent; tuples may start with an unreadable member; in-place merges.",
        note="Trusted: in the two-pass model parameter sets and block contents are abstract ids; the concrete block is Model.ReadBlock/Builder.toVal "
             "(hand-written, tied by rdq/mrgb); preconditions of merged_block_same_records: tick rate >= 1, earliest time representable. Driver/Mrg.lean.",
        technique="Lean 4 proof (invariant of pass 1 map) + differential correspondence with the real tools", design="§4 C18"),
    "C20": dict(
        text="Lean 4: schedule_independent (threads with private state and read-only shared data give, under EVERY interleaving, the "
             "sequential per-thread results) + generated obligations over the inventory rebuilt by translator T2 from the working "
             "tree's objects: no_shared_mutable (every writable static-storage symbol is const-qualified, thread-local or runtime data), "
             "no_nonreentrant_call; the inventory includes the statics of header-defined inline member functions (an all-headers unit compiled "
             "with -fkeep-inline-functions; unique/weak objects of namespace CDNS). Failing-schedule search: ThreadSanitizer build, 2..16 threads with independent exporter / reader / "
             "renderer workloads (all compression modes), injected yields, per-thread results vs sequential run. Each workload also: a failed rotation must not touch the old descriptor number afterwards; a block with 48 address-event keys is written and read back (hash order must not depend on the thread); named outputs (plain/gzip/xz) with small pieces pending in the stream and one rotation.",
        note="Partial: sharing through application-provided pointers is outside the inventory (excluded by the property); libstdc++, "
             "zlib, liblzma trusted thread-safe for distinct objects; C++ memory model trusted.",
        technique="Lean 4 proof + translator-regenerated symbol inventory (decide) + ThreadSanitizer schedule search", design="§4 C20"),
}
REASON_PENDING = "check not built yet in this revision (work in progress; see DESIGN.md §8 build order)"

checks = []
for i in ids:
    if i in CLAIMED:
        c = CLAIMED[i]
        checks.append({
            "property_id": i,
            "quick_cmd": f"python3 tools/check.py {i} --tier quick",
            "thorough_cmd": f"python3 tools/check.py {i} --tier thorough",
            "evidence_file": f"/verif/evidence/{i}.json",
            "replay_cmd_template": f"python3 tools/check.py {i} --replay {{path}}",
            "engine": "lean4+correspondence",
            "level_claimed": {"category": c.get("category", "proof"), "text": c["text"], "design_ref": c["design"]},
            "level_note": c["note"],
            "technique": c["technique"],
        })
na = [{"property_id": i, "reason": REASON_PENDING} for i in ids if i not in CLAIMED]
m = {
    "version": 1,
    "setup_cmd": "python3 tools/setup.py",
    "hooks": {
        "guard": "CDNS_VERIF",
        "enable": "no source hooks: the harness compiles /repo/src/*.cpp with -DCDNS_VERIF -fno-access-control (harness files only) and interposes syscalls in its own executable",
        "baseline_off_cmd": "cmake --build /repo/_build && ctest --test-dir /repo/_build -j8 --timeout 900",
        "source_commits": [],
        "add_only": True,
    },
    "engines": [{"name": "lean4+correspondence", "path": "tools/check.py", "serves_properties": sorted(CLAIMED),
                 "kind_free_text": "Lean 4 proofs (lean/CdnsVerif/Props) over executable models, tied to /repo by a translator (tools/translate.py) and a differential correspondence harness (harness/*.cpp vs lean driver)"}],
    "checks": checks,
    "not_applicable": na,
    "notes": "See DESIGN.md. known_findings.txt lists recorded findings and fixed defects.",
}
json.dump(m, open(os.path.join(VERIF, "MANIFEST.json"), "w"), indent=1)
print("claimed:", sorted(CLAIMED), "pending:", len(na))
