#!/bin/bash
# development aid (round 6+): confirm and evaluate the three changes one sub-agent delivered, without touching /repo or /verif:
#   seedlane.sh <lane 1|2> <agent dir name, e.g. L05> [extra props...]
# uses the worktree /tmp/mutrepo<lane> (CDNS_REPO) and the copy /tmp/verifrun<lane> of /verif; stores under /verif/seeded/.
lane=$1; ag=$2; shift 2
for m in mutX mutY mutZ; do
  md=/tmp/seed/$ag/OUT/$m.md
  [ -f /tmp/seed/$ag/OUT/$m.diff ] || { echo "$ag $m: no diff"; continue; }
  prop=$(head -3 $md | grep -o 'C[0-9][0-9]' | head -1)
  [ -n "$prop" ] || { echo "$ag $m: no property line"; continue; }
  name=$prop-$ag$m
  echo "=== $name"
  SEED_WT=/tmp/seed/$ag SEED_REPO=/tmp/mutrepo$lane SEED_VERIF=/tmp/verifrun$lane SEED_NAME=$name \
    python3 /verif/tools/seedtest.py $prop $m "$@" 2>&1 | tail -6
done
