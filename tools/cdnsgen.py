"""Generator of exporter sessions (records, block parameters, preambles) in the textual format of
harness/records.h, the RFC 8618 projection of a record under storage hints (written from the RFC's
hint semantics, not from the library's guards), and helpers to run sessions and parse the answers."""
import vlib

QR_KEYS = ["ts", "cip", "cport", "tid", "sip", "sport", "tf", "qt", "sf", "op", "df", "qrc", "ct", "qd", "an", "ns", "ar",
           "ev", "us", "ord", "rrc", "hl", "rd", "qn", "qs", "rs", "bw", "pf", "qq", "qa", "qu", "qx", "rq", "ra", "ru", "rx",
           "asn", "cc", "rtt"]
MM_KEYS = ["ts", "cip", "cport", "sip", "sport", "tf", "pl"]
AEC_KEYS = ["at", "ac", "atf", "ip", "n"]

# RFC 8618 storage hints: which bit governs which member
QR_HINT = {"ts": 0, "cip": 1, "cport": 2, "tid": 3, "hl": 5, "rd": 6, "qn": 7, "qs": 8, "rs": 9, "bw": 10, "pf": 10,
           "qq": 11, "qa": 12, "qu": 13, "qx": 14, "rq": 11, "ra": 15, "ru": 16, "rx": 17}
SIG_HINT = {"sip": 0, "sport": 1, "tf": 2, "qt": 3, "sf": 4, "op": 5, "df": 6, "qrc": 7, "ct": 8, "qd": 9, "an": 10, "ns": 11,
            "ar": 12, "ev": 13, "us": 14, "ord": 15, "rrc": 16}
SIG_BIT = 4
ALL_QRH, ALL_SIGH = 2**18 - 1, 2**17 - 1

U16 = [0, 1, 255, 256, 65535]
U8 = [0, 1, 23, 24, 255]


def xh(b):
    return "x" + b.hex()


def rbytes(rng, pool=None, maxlen=12):
    if pool and rng.random() < 0.7:
        return rng.choice(pool)
    L = rng.choice([0, 1, 4, 16, rng.randrange(0, maxlen)])
    return bytes(rng.randrange(256) for _ in range(L))


class Pools:
    def __init__(self, rng):
        # values that a "canonicalising" or "normalising" change would identify although they are different byte strings:
        # an IPv4 address and its IPv4-mapped IPv6 form, zero addresses of both lengths, a prefix-truncated address,
        # names differing in letter case or in the root label
        self.ips = [bytes([10, 0, 0, i]) for i in range(3)] + [bytes(range(16)), bytes(10) + b"\xff\xff" + bytes([10, 0, 0, 1]),
                    bytes(4), bytes(16), bytes(15) + b"\x01", bytes([10, 0, 0])]
        self.names = [b"\x03www\x07example\x03com\x00", b"\x00", b"\x02ns\x04test\x00", b"", b"\x03WWW\x07example\x03com\x00",
                      b"\x03www\x07example\x03com"]
        self.cts = [(1, 1), (28, 1), (65535, 65535), (0, 0), (1, 0), (0, 1)]


def gen_rr(rng, pools, question=False):
    name = rbytes(rng, pools.names)
    t, c = rng.choice(pools.cts) if rng.random() < 0.7 else (rng.randrange(65536), rng.randrange(65536))
    ttl = None if rng.random() < 0.3 else rng.choice([0, 1, 3600, 2**32 - 1, rng.randrange(2**32)])
    rdata = None if rng.random() < 0.3 else rbytes(rng, pools.names)
    return (name, t, c, ttl, rdata)


def show_rrs(rrs):
    return "+".join("%s~%d~%d~%s~%s" % (xh(n), t, c, "-" if ttl is None else ttl, "-" if rd is None else xh(rd))
                    for (n, t, c, ttl, rd) in rrs)


def gen_qr(rng, pools, p_present=0.6, base_ts=None, tps=1000000, full=False):
    r = {}
    def on():
        return full or rng.random() < p_present
    if on():
        if base_ts is None:
            base_ts = (1636068056, 0)
        inst = base_ts[0] * tps + base_ts[1] + rng.choice([0, 1, tps - 1, tps, rng.randrange(0, 5 * tps + 1)])
        r["ts"] = (inst // tps, inst % tps)
    if on(): r["cip"] = rbytes(rng, pools.ips)
    if on(): r["cport"] = rng.choice(U16 + [rng.randrange(65536)])
    if on(): r["tid"] = rng.choice(U16 + [rng.randrange(65536)])
    if on(): r["sip"] = rbytes(rng, pools.ips)
    if on(): r["sport"] = rng.choice(U16)
    if on(): r["tf"] = rng.choice(U8 + [rng.randrange(64)])
    if on(): r["qt"] = rng.choice([0, 1, 2, 3, 4, 5, 200])
    if on(): r["sf"] = rng.choice(U8)
    if on(): r["op"] = rng.choice(U8)
    if on(): r["df"] = rng.choice(U16)
    if on(): r["qrc"] = rng.choice(U16)
    if on(): r["ct"] = rng.choice(pools.cts)
    for k in ("qd", "an", "ns", "ar", "us", "rrc"):
        if on(): r[k] = rng.choice(U16)
    if on(): r["ev"] = rng.choice(U8)
    if on(): r["ord"] = rbytes(rng, pools.names)
    if on(): r["hl"] = rng.choice(U8)
    if on(): r["rd"] = rng.choice([0, 1, -1, 2**63 - 1, -2**63, rng.randrange(-10**6, 10**6)])
    if on(): r["qn"] = rbytes(rng, pools.names)
    if on(): r["qs"] = rng.choice([0, 1, 65535, 65536, 2**32, 2**64 - 1])
    if on(): r["rs"] = rng.choice([0, 1, 65535, 65536, 2**32, 2**64 - 1])
    if on(): r["bw"] = rbytes(rng, pools.names)
    if on(): r["pf"] = rng.choice([0, 1, 255])
    for k in ("qq", "qa", "qu", "qx", "rq", "ra", "ru", "rx"):
        if rng.random() < (0.9 if full else 0.25):
            n = rng.choice([0, 1, 1, 2, 3])
            if full and n == 0:
                n = 1
            r[k] = [gen_rr(rng, pools) for _ in range(n)]
            if k not in ("qq", "rq") and rng.random() < 0.15:
                # look-alike resource records: one with a TTL only, one with RDATA only, the TTL being a small number (the
                # range of the table indices the RDATA will get) - distinct records that agree in every present value's position
                nm = rbytes(rng, pools.names)
                for j in rng.sample(range(0, 6), 2):
                    r[k] += [(nm, 1, 1, j, None), (nm, 1, 1, None, rbytes(rng, pools.names))]
            if k in ("qq", "rq"):
                r[k] = [(n_, t, c, None, None) for (n_, t, c, _, _) in r[k]]
    # the record's own values met again in another member, as in real traffic: the EDNS OPT pseudo-RR (type 41, class = UDP size,
    # RDATA = the OPT RDATA the signature also carries) in the additional sections - alone or among other records -, the query name
    # as owner name of a resource record, client and server address equal
    if "ord" in r and rng.random() < 0.4:
        opt = (b"\x00", 41, r.get("us", 4096) % 65536, rng.choice([0, 0x8000, None]), r["ord"])
        for k in rng.sample(["qx", "rx"], rng.choice([1, 2])):
            r[k] = rng.choice([[opt], r.get(k, []) + [opt], [opt] + r.get(k, [])])
    if "qn" in r and rng.random() < 0.2:
        k = rng.choice(["qa", "ra", "ru", "rx"])
        r[k] = r.get(k, []) + [(r["qn"], 1, 1, 300, r["qn"] if rng.random() < 0.5 else None)]
    if "cip" in r and "sip" in r and rng.random() < 0.1:
        r["sip"] = r["cip"]
    if on(): r["asn"] = rbytes(rng, [b"AS1234", b""])
    if on(): r["cc"] = rbytes(rng, [b"CZ", b"US"])
    if on(): r["rtt"] = rng.choice([0, -5, 2**63 - 1, -2**63, 77])
    return r


def gen_mm(rng, pools, p_present=0.6, base_ts=None, tps=1000000):
    r = {}
    def on():
        return rng.random() < p_present
    if on():
        if base_ts is None:
            base_ts = (1636068056, 0)
        inst = base_ts[0] * tps + base_ts[1] + rng.randrange(0, 3 * tps + 1)
        r["ts"] = (inst // tps, inst % tps)
    if on(): r["cip"] = rbytes(rng, pools.ips)
    if on(): r["cport"] = rng.choice(U16)
    if on(): r["sip"] = rbytes(rng, pools.ips)
    if on(): r["sport"] = rng.choice(U16)
    if on(): r["tf"] = rng.choice(U8)
    if on(): r["pl"] = rbytes(rng, [b"\xde\xad", b"", b"A" * 40])
    return r


def gen_aec(rng, pools):
    r = {"at": rng.choice([0, 1, 2, 3, 4, 5, 9]), "ip": rbytes(rng, pools.ips[:2])}
    if rng.random() < 0.5: r["ac"] = rng.choice([0, 3, 255])
    if rng.random() < 0.5: r["atf"] = rng.choice([0, 1, 2])
    # whatever the caller left in GenericAddressEventCount::ae_count (e.g. a record obtained from read_generic_aec of another
    # file): the block counts the calls, the member is not part of the event's identity
    if rng.random() < 0.4: r["n"] = rng.choice([0, 1, 2, 7, 2**64 - 1])
    return r


def gen_stats(rng):
    if rng.random() < 0.15:
        return [None] * 6
    return [None if rng.random() < 0.3 else rng.choice([0, 1, 2**32 - 1, rng.randrange(1000)]) for _ in range(6)]


def show_val(k, v):
    if k == "ts":
        return "%d.%d" % v
    if k == "ct":
        return "%d.%d" % v
    if k in ("qq", "qa", "qu", "qx", "rq", "ra", "ru", "rx"):
        return show_rrs(v)
    if isinstance(v, bytes):
        return xh(v)
    return str(v)


def show_rec(tag, keys, r):
    return tag + "{" + ",".join("%s=%s" % (k, show_val(k, r[k])) for k in keys if k in r) + "}"


def show_fields(keys, r):
    return ",".join("%s=%s" % (k, show_val(k, r[k])) for k in keys if k in r)


def show_stats(st):
    return ".".join("-" if v is None else str(v) for v in st)


def project_qr(r, qrh, sigh, rrh):
    """RFC 8618: what of a query/response record is stored under the given hints (None = nothing stored)"""
    out = {}
    for k, v in r.items():
        if k in QR_HINT:
            if not (qrh >> QR_HINT[k]) & 1:
                continue
        elif k in SIG_HINT:
            if not (qrh >> SIG_BIT) & 1 or not (sigh >> SIG_HINT[k]) & 1:
                continue
        if k in ("qq", "qa", "qu", "qx", "rq", "ra", "ru", "rx"):
            if not v:
                continue            # empty section list == absent
            if k in ("qq", "rq"):
                v = [(n, t, c, None, None) for (n, t, c, ttl, rd) in v]
            else:
                v = [(n, t, c, ttl if rrh & 1 else None, rd if rrh & 2 else None) for (n, t, c, ttl, rd) in v]
        out[k] = v
    return out or None


def project_mm(r, odh):
    if not odh & 1:
        return None
    return dict(r) or None


def bp_token(bp):
    """bp: dict of kv for BP: token"""
    parts = []
    for k, v in bp.items():
        if isinstance(v, list):
            if k in ("opc", "rrt", "cvl"):
                parts.append("%s=%s" % (k, ".".join(map(str, v))))
            else:
                parts.append("%s=%s" % (k, "+".join(xh(x) for x in v)))
        elif isinstance(v, bytes):
            parts.append("%s=%s" % (k, xh(v)))
        elif v is True:
            parts.append("%s=1" % k)
        else:
            parts.append("%s=%s" % (k, v))
    return "BP:" + ",".join(parts)


DEFAULT_OPC = [0, 1, 2, 4, 5, 6]


def default_rrt():
    return list(range(1, 54)) + list(range(55, 66)) + list(range(99, 110)) + list(range(249, 261)) + [32768, 32769]


def expected_bp_dump(bp):
    """canonical P{...} of harness/records.h show_bp for a bp dict (defaults filled in)"""
    d = {"tps": 1000000, "max": 10000, "qrh": ALL_QRH, "sigh": ALL_SIGH, "rrh": 3, "odh": 3, "opc": DEFAULT_OPC, "rrt": default_rrt()}
    d.update({k: v for k, v in bp.items() if k in d})
    parts = ["tps=%d" % d["tps"], "max=%d" % d["max"], "qrh=%d" % d["qrh"], "sigh=%d" % d["sigh"], "rrh=%d" % d["rrh"],
             "odh=%d" % d["odh"], "opc=" + ".".join(map(str, d["opc"])), "rrt=" + ".".join(map(str, d["rrt"]))]
    for k in ("sfl", "cp4", "cp6", "sp4", "sp6"):
        if k in bp:
            parts.append("%s=%d" % (k, bp[k]))
    for k in ("sm", "am"):
        if k in bp:
            parts.append("%s=%s" % (k, xh(bp[k])))
    if bp.get("cp"):
        parts.append("cp=1")
        for k in ("cqt", "cst", "csl"):
            if k in bp:
                parts.append("%s=%d" % (k, bp[k]))
        if "cpr" in bp:
            parts.append("cpr=%d" % bp["cpr"])
        for k in ("cif", "csa"):
            if bp.get(k):
                parts.append("%s=%s" % (k, "+".join(xh(x) for x in bp[k])))
        if bp.get("cvl"):
            parts.append("cvl=" + ".".join(map(str, bp["cvl"])))
        for k in ("cfl", "cgi", "chi"):
            if k in bp:
                parts.append("%s=%s" % (k, xh(bp[k])))
    return "P{" + ",".join(parts) + "}"


def gen_bp(rng, simple=True, tps=None, maxb=None):
    bp = {}
    bp["tps"] = tps if tps is not None else rng.choice([1, 1000, 10**6, 10**9, rng.randrange(1, 10**9)])
    bp["max"] = maxb if maxb is not None else rng.choice([0, 1, 2, 3, 5, 100])
    k = rng.random()
    if k < 0.4:
        bp["qrh"], bp["sigh"], bp["rrh"], bp["odh"] = ALL_QRH, ALL_SIGH, 3, 3
    elif k < 0.6:
        bp["qrh"] = ALL_QRH & ~(1 << rng.randrange(18)); bp["sigh"] = ALL_SIGH & ~(1 << rng.randrange(17))
        bp["rrh"] = rng.randrange(4); bp["odh"] = rng.randrange(4)
    elif k < 0.75:
        bp["qrh"] = (1 << rng.randrange(18)) | (1 << SIG_BIT if rng.random() < 0.5 else 0); bp["sigh"] = 1 << rng.randrange(17)
        bp["rrh"] = rng.randrange(4); bp["odh"] = rng.randrange(4)
    else:
        bp["qrh"] = rng.randrange(2**18); bp["sigh"] = rng.randrange(2**17); bp["rrh"] = rng.randrange(4); bp["odh"] = rng.randrange(4)
    if not simple:
        if rng.random() < 0.5: bp["opc"] = [rng.randrange(256) for _ in range(rng.choice([0, 1, 3]))]
        if rng.random() < 0.5: bp["rrt"] = [rng.randrange(65536) for _ in range(rng.choice([0, 1, 4]))]
        for kk in ("sfl", "cp4", "cp6", "sp4", "sp6"):
            if rng.random() < 0.4: bp[kk] = rng.choice(U8)
        for kk in ("sm", "am"):
            if rng.random() < 0.4: bp[kk] = rng.choice([b"", b"none", "přílíš".encode(), bytes([0xff, 0x00, 0x41])])
        if rng.random() < 0.6:
            bp["cp"] = True
            if rng.random() < 0.75:
                for kk in ("cqt", "cst", "csl"):
                    if rng.random() < 0.5: bp[kk] = rng.choice([0, 1, 2**32, 2**64 - 1])
                if rng.random() < 0.5: bp["cpr"] = rng.randrange(2)
                if rng.random() < 0.5: bp["cif"] = [rng.choice([b"eth0", b"", "ž".encode()]) for _ in range(rng.choice([1, 2]))]
                if rng.random() < 0.5: bp["csa"] = [rng.choice([b"\x7f\x00\x00\x01", b"", bytes(16)]) for _ in range(rng.choice([1, 3]))]
                if rng.random() < 0.5: bp["cvl"] = [rng.choice(U16) for _ in range(rng.choice([1, 2]))]
                for kk in ("cfl", "cgi", "chi"):
                    if rng.random() < 0.5: bp[kk] = rng.choice([b"", b"udp port 53", "ř".encode()])
    return bp


def run_exp(lines, variant="asan"):
    exe = vlib.build_harness(variant)
    return vlib.run_lines([exe, "exp"], lines, timeout=900, min_chunk=16)


def run_rd(lines):
    exe = vlib.build_harness("asan")
    return vlib.run_lines([exe, "rd"], lines, timeout=900, min_chunk=16)


def run_driver(lines):
    return vlib.run_lines([vlib.driver_exe()], lines, timeout=900, min_chunk=16)


def parse_exp_answer(ans):
    """-> (results list, outputs list of hex/'-'/'MISSING'/'PART:..') or None on crash"""
    if ans is None or not ans.startswith("I"):
        return None
    left, _, right = ans.partition(" |")
    return left.split()[1:], right.split()
