"""shared runner for exporter-session based checks (C01 C02 C04 C10 C12 C13 C14)"""
import gzip, lzma, zlib
import vlib, cdnsgen as G, refexp


def decompress(hexdata, comp):
    """-> (bytes or None, error)"""
    if hexdata == "-":
        return b"", None
    raw = bytes.fromhex(hexdata)
    try:
        if comp == "g":
            d = zlib.decompressobj(31)
            out = d.decompress(raw)
            if not d.eof:
                return None, "gzip stream not terminated"
            if d.unused_data:
                return None, "data after the end of the gzip stream (%d bytes)" % len(d.unused_data)
            return out, None
        if comp == "x":
            d = lzma.LZMADecompressor(format=lzma.FORMAT_XZ)
            out = d.decompress(raw)
            if not d.eof:
                return None, "xz stream not terminated"
            if d.unused_data:
                return None, "data after the end of the xz stream"
            return out, None
    except Exception as e:
        return None, "decompression failed: %s" % e
    return raw, None


def comp_of(line):
    for t in line.split():
        if t.startswith("X:"):
            return t.split(":")[2]
    return "n"


def run_sessions(run, sessions, rd_kind="s", need_rd=True, need_lean=True, need_model=False):
    answers = G.run_exp([s[0] for s in sessions])
    res = []
    rd_lines, idx = [], []
    for si, ans in enumerate(answers):
        p = G.parse_exp_answer(ans)
        comp = comp_of(sessions[si][0])
        r = {"raw": ans, "results": p[0] if p else None, "outs": p[1] if p else None, "plain": [], "rd": {}, "lean": {}, "model": {}, "rdq": {}, "comp": comp}
        if p:
            for oi, o in enumerate(p[1]):
                if o == "MISSING" or o.startswith("PART:"):
                    r["plain"].append((None, o))
                    continue
                data, err = decompress(o, comp)
                r["plain"].append((data, err))
                if data:
                    rd_lines.append("rd %s %s" % (rd_kind, data.hex())); idx.append((si, oi))
        res.append(r)
    rd = G.run_rd(rd_lines) if need_rd else [None] * len(rd_lines)
    lean = G.run_driver(["cdns " + l.split()[2] for l in rd_lines]) if (need_lean and run.driver_ok) else [None] * len(rd_lines)
    # the MODEL of the struct readers/writers (Model.Schema over the block and preamble schemas) on the same bytes
    model = G.run_driver(["blk " + l.split()[2] for l in rd_lines]) if (need_model and run.driver_ok) else [None] * len(rd_lines)
    # the MODEL of the read side of a block (Model.ReadBlock: CdnsBlockRead::read after the raw read, read_generic_qr/aec/mm)
    rdq = G.run_driver(["rdq " + l.split()[2] for l in rd_lines]) if (need_model and need_rd and run.driver_ok) else [None] * len(rd_lines)
    for (si, oi), a, l, m, q in zip(idx, rd, lean, model, rdq):
        res[si]["rd"][oi] = a
        res[si]["lean"][oi] = l
        res[si]["model"][oi] = m
        res[si]["rdq"][oi] = q
    return res


def blocks_part(dump):
    """the part of a reader dump after the preamble: 'B{..} B{..} EOF' / 'E:dec' ..."""
    if dump is None:
        return None
    body = dump[2:] if dump[:2] in ("I ", "M ", "S ") else dump
    if body.startswith("B{"):
        return body
    i = body.find(" B{")
    if i >= 0:
        return body[i + 1:]
    return body.rsplit(" ", 1)[-1]


def same_records(model_ans, lib_dump):
    """Model.ReadBlock (rdq) against the library reader's dump.  Within ONE block the library interleaves decoding and the
    post-read checks while the model decodes the block first, so when both end with an exception in the same block the class
    of the exception may differ; everything before it must be equal."""
    if model_ans is None or lib_dump is None or not model_ans.startswith("M"):
        return True
    m, l = blocks_part(model_ans), blocks_part(lib_dump)
    if m == l:
        return True
    mt, lt = m.rsplit(" ", 1), l.rsplit(" ", 1)
    return mt[-1].startswith("E:") and lt[-1].startswith("E:") and mt[:-1] == lt[:-1]


def judge_readmodel(run, session, r, limit=5):
    for oi, q in r["rdq"].items():
        a = r["rd"].get(oi)
        if q is None or a is None:
            continue
        run.count("read-model: records of an output resolved by Model.ReadBlock")
        if not same_records(q, a) and len(run.model_fail) < limit:
            run.model_fail.append((session[0][:4000], {"correspondence": "Model.ReadBlock (ofVal + records: CdnsBlockRead::read after the raw read, "
                                                      "read_generic_qr/aec/mm) vs the records the library reader returns", "output": oi,
                                                      "model": (blocks_part(q) or "")[:1500], "library": (blocks_part(a) or "")[:1500]}))


def judge_model(run, session, r, limit=5):
    """correspondence of the schema model with the library: the model reader (readVal over filePreamble / block) resolves to the
    dump the library reader gives, and the model writer reproduces the library's bytes for the value read"""
    judge_readmodel(run, session, r, limit)
    for oi, m in r["model"].items():
        a = r["rd"].get(oi)
        if m is None:
            continue
        if a is None:
            # no library read in this check: only the writer correspondence, on files the independent reader accepts
            lg = r["lean"].get(oi)
            if lg is None or lg.startswith("S invalid"):
                continue
        elif not a.startswith("I F{") or not a.endswith(" EOF"):
            continue
        run.count("schema-model: file read+rewritten by the model")
        body = m[2:].split(" #")[0]
        if len(run.model_fail) >= limit:
            return
        if a is not None and body != a[2:]:
            run.model_fail.append((session[0][:4000], {"correspondence": "Model.Schema reader (readVal filePreamble / block) vs library reader",
                                                      "output": oi, "model": m[:1500], "library": a[:1500]}))
        elif "#rewrite=same" not in m:
            run.model_fail.append((session[0][:4000], {"correspondence": "Model.Schema writer (writeBytes) does not reproduce the bytes the library wrote",
                                                      "output": oi, "model": m[-80:], "file": (r["plain"][oi][0] or b"")[:600].hex()}))
        elif "conforms=yes" not in m:
            run.model_fail.append((session[0][:4000], {"correspondence": "a value the library wrote lies outside the domain (Conforms) of C01.file_roundtrip",
                                                      "output": oi, "model": m[-80:], "file": (r["plain"][oi][0] or b"")[:600].hex()}))
        else:
            run.count("schema-model: output inside the domain of file_roundtrip (conformsB)")


def expected_outputs(ref):
    out = []
    for oi, blocks in enumerate(ref.outputs):
        out.append(refexp.file_dump(ref.fp, ref.out_preamble_bps[oi], blocks) if blocks else None)
    return out


def judge_files(session, r, tag="exp"):
    """library reader / independent reader / reference expectation agree on every output"""
    line, ref, exp_results = session
    bad = []
    if r["results"] is None:
        return [(tag + ":crash", {"implementation": (r["raw"] or "")[:300]})]
    exp_out = expected_outputs(ref)
    if len(r["plain"]) != len(exp_out):
        return [(tag + ":outputs", {"why": "number of outputs %d != %d" % (len(r["plain"]), len(exp_out))})]
    for oi, e in enumerate(exp_out):
        data, err = r["plain"][oi]
        if data is None:
            bad.append((tag + ":output-unreadable", {"output": oi, "why": err}))
            continue
        if e is None:
            if data:
                bad.append((tag + ":empty-output-got-data", {"output": oi, "bytes": data[:40].hex()}))
            continue
        if not data:
            bad.append((tag + ":output-empty", {"output": oi}))
            continue
        got = (r["rd"].get(oi) or "")[2:]
        if r["rd"].get(oi) is not None and got != e:
            bad.append((tag + ":library-reader", {"output": oi, "library reader": got[:1500], "expected": e[:1500]}))
        lg = r["lean"].get(oi)
        if lg is not None and lg[2:].split(" #")[0] != e:
            bad.append((tag + ":independent-reader", {"output": oi, "independent RFC 8618 reader": lg[:1500], "expected": e[:1500]}))
    return bad


def judge_returns(session, r, tag="ret"):
    """return values: non-zero exactly when the reference says a block was written; literal results equal"""
    line, ref, exp_results = session
    bad = []
    if r["results"] is None:
        return []
    got = r["results"]
    if len(got) != len(exp_results):
        return [(tag + ":count", {"why": "%d results, expected %d" % (len(got), len(exp_results)), "results": " ".join(got)[:500]})]
    for k, ((kind, e), g) in enumerate(zip(exp_results, got)):
        if kind == "lit":
            if g != e:
                bad.append((tag + ":" + e.split("=")[0][:2], {"op#": k, "got": g, "expected": e}))
                break
        else:
            if g.startswith("E:") or (int(g) != 0) != bool(e):
                bad.append((tag + ":nonzero-iff-block-written", {"op#": k, "got": g, "expected block written": bool(e)}))
                break
    return bad


def record_failures(run, session, bads, seen, kind="spec"):
    for sig, detail in bads:
        if sig in seen:
            continue
        seen.add(sig)
        detail["session"] = session[0][:6000]
        run.spec_fail.append((sig, session[0][:6000], detail))


# ------------------------------------------------------------------------------------------------
# correspondence of the block-building model (Model/Builder.lean: hint guards, table building, earliest time, block writer)
def _canon_block(block):
    """block bytes with the elements of the address-event-count array sorted (the library iterates a hash map)"""
    import cborgen
    node, _ = cborgen.parse(block)
    ch = node.children
    for k in range(0, len(ch) - 1, 2):
        if ch[k].major == 0 and ch[k].arg == 4 and ch[k + 1].children:
            els = ch[k + 1].children
            parts = sorted(block[e.start:e.end] for e in els)
            return block[:els[0].start] + b"".join(parts) + block[els[-1].end:]
    return block


def judge_builder(run, sessions, res, limit=5):
    """single-block outputs of sessions that only buffer records: the bytes of the block the library wrote must be the bytes the
    model builds (`bld` driver) from the same records and hints – up to the order of the address-event array"""
    import cborgen
    lines, metas = [], []
    for s, r in zip(sessions, res):
        if r["results"] is None or not r["plain"] or not r["plain"][0][0]:
            continue
        ref = s[1]
        toks = s[0].split()
        if len(ref.bps) != 1 or any(t.split(":")[0] not in ("exp", "FP", "BP", "X", "Q", "A", "M", "W", "D", "C") for t in toks):
            continue
        data = r["plain"][0][0]
        try:
            top, _ = cborgen.parse(data)
            blocks = top.children[2].children
        except Exception:
            continue
        if len(blocks) != 1:
            continue
        p = {"qrh": G.ALL_QRH, "sigh": G.ALL_SIGH, "rrh": 3, "odh": 3, "tps": 1000000}
        p.update(ref.bps[0])
        recs = [t for t in toks if t[:2] in ("Q:", "A:", "M:")]
        if p.get("max", 10000) <= len(recs) or toks.count("W") != 1:
            continue                      # the block may have been flushed before the last record
        lines.append("bld %d %d %d %d %d 0 %s" % (p["qrh"], p["sigh"], p["rrh"], p["odh"], p["tps"], " ".join(recs)))
        metas.append((s, data[blocks[0].start:blocks[0].end]))
    if not lines or not run.driver_ok:
        return
    for (s, blk), m in zip(metas, G.run_driver(lines)):
        run.count("builder-model: block compared byte for byte")
        if m is None or not m.startswith("M "):
            continue
        hx = m[2:].split(" #")[0]
        try:
            same = bytes.fromhex(hx) == blk or _canon_block(bytes.fromhex(hx)) == _canon_block(blk)
        except Exception:
            same = False
        if not same and len(run.model_fail) < limit:
            run.model_fail.append((s[0][:5000], {"correspondence": "Model.Builder (hint guards, tables, earliest time) + Model.Schema writer vs the block the library wrote",
                                                 "model block": hx[:3000], "library block": blk.hex()[:3000]}))
        elif same and "conforms=yes" not in m and len(run.model_fail) < limit:
            run.model_fail.append((s[0][:5000], {"correspondence": "the block value built lies outside Conforms block", "model": m[-60:]}))


def judge_projection(run, sessions, res, limit=5):
    """record level: for sessions with ONE parameter set the query/responses the library reader returns, over all blocks in
    order, must be what the Lean projection model (`Model.Resolve.expectedQrs`, proved equal to index resolution of the block
    built) says for the records buffered – independent of where blocks were flushed"""
    import re
    lines, metas = [], []
    for s, r in zip(sessions, res):
        ref = s[1]
        toks = s[0].split()
        if r["results"] is None or len(ref.bps) != 1 or any(t.split(":")[0] in ("EH", "AB", "WB", "R") for t in toks):
            continue
        if len(r["plain"]) != 1 or not r["plain"][0][0]:
            continue
        dump = r["rd"].get(0)
        if not dump or not dump.endswith(" EOF"):
            continue
        p = {"qrh": G.ALL_QRH, "sigh": G.ALL_SIGH, "rrh": 3, "odh": 3, "tps": 1000000}
        p.update(ref.bps[0])
        recs = [t for t in toks if t[:2] in ("Q:", "A:", "M:")]
        lines.append("prjd %d %d %d %d %d %s" % (p["qrh"], p["sigh"], p["rrh"], p["odh"], p["tps"], " ".join(recs)))
        metas.append((s, re.findall(r"Q\{[^}]*\}", dump)))
    if not lines or not run.driver_ok:
        return
    for (s, got), m in zip(metas, G.run_driver(lines)):
        run.count("projection-model: query/responses of a session compared")
        if m is None or not m.startswith("M"):
            continue
        exp = [x for x in m[2:].split(";") if x]
        if exp != got and len(run.model_fail) < limit:
            k = next((i for i in range(min(len(exp), len(got))) if exp[i] != got[i]), min(len(exp), len(got)))
            run.model_fail.append((s[0][:5000], {"correspondence": "Model.Resolve.expectedQrs (hint projection = index resolution of the block built) vs the "
                                                 "query/responses the library reader returns", "first difference at record": k,
                                                 "model": (exp[k] if k < len(exp) else "<none>")[:1500], "library": (got[k] if k < len(got) else "<none>")[:1500],
                                                 "counts": [len(exp), len(got)]}))


def scale_sessions():
    """the sessions of scale_check (also read by C03 as valid large inputs)"""
    import refexp
    fp = {"maj": 1, "min": 0}
    n = 65540
    many_blocks = refexp.make_session(fp, [{"tps": 1000, "max": 1, "qrh": 4, "sigh": 0, "rrh": 0, "odh": 0}],
                                      [("Q", {"cport": i % 65536}, None) for i in range(n)] + [("C",)], end_flush=False)
    rr = (b"\x03www\x00", 1, 1, 300, b"\x0a\x00\x00\x01")
    qq = (b"\x03www\x00", 1, 1, None, None)
    long_lists = refexp.make_session(fp, [{"tps": 1000, "max": 10, "qrh": G.ALL_QRH, "sigh": G.ALL_SIGH, "rrh": 3, "odh": 3}],
                                     [("Q", {"cport": 1, "ra": [rr] * 65600, "qq": [qq] * 70000}, None), ("Q", {"cport": 2, "ra": [rr] * 3}, None)])
    big = bytes([7]) * (12 * 1024 * 1024 + 1)
    big_strings = refexp.make_session(fp, [{"tps": 1000, "max": 10, "qrh": G.ALL_QRH, "sigh": G.ALL_SIGH, "rrh": 3, "odh": 3}],
                                      [("M", {"cport": 1, "pl": big}, None), ("Q", {"cport": 2, "qn": big, "ra": [(b"\x03www\x00", 1, 1, 300, big)]}, None)])
    return [many_blocks, long_lists, big_strings]


def scale_check(run, seen, tag):
    """one output with more than 65536 blocks (max_block_items = 1), and one query/response whose sections hold more than 65536
    resource records / questions, and one with byte strings of 12 MiB: counters, the library reader's view and the framing of the file (independent CBOR walk) must be
    what the reference says.  (The Lean reader is not used here: it needs minutes on a file of 70 000 blocks.)"""
    import cborgen
    sessions = scale_sessions()
    for s, r in zip(sessions, run_sessions(run, sessions, need_rd=True, need_lean=False)):
        run.case(("scale", s[0][:80]), True, key=s[0][:200] + str(len(s[0]))); run.count("scale sessions")
        bad = judge_returns(s, r) + judge_files(s, r, tag=tag)
        if not bad and r["plain"] and r["plain"][0][0]:
            data = r["plain"][0][0]
            try:
                top, end = cborgen.parse(data)
                blocks = top.children[2].children
                ok = end == len(data) and top.major == 4 and len(top.children) == 3 and all(b.major == 5 for b in blocks)
                why = "" if ok else "not one file array of maps ending at the last byte"
            except Exception as e:
                ok, why = False, "not parseable as one CBOR item: %s" % e
            if not ok:
                bad.append((tag + ":scale-framing", {"why": why, "bytes": len(data)}))
        record_failures(run, (s[0][:3000] + " ...", s[1], s[2]), bad, seen)
