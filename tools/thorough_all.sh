#!/bin/bash
python3 tools/setup.py > setup.log 2>&1
for i in 17 06 10 07 19 11 04 09 12 13 02 16 20 14 18 08 15 01 05 03; do
  /usr/bin/time -f "C$i %es" timeout 3600 python3 tools/check.py C$i --tier thorough 2>&1 | tail -3
done
