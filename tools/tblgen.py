"""generator + reference semantics for the table layer (C11, C19)"""
TABLES = ["ip", "nr", "ct", "qs", "ql", "qq", "rl", "rr", "md"]


def xh(b):
    return "x" + b.hex()


def opt(rng, choices, p=0.5):
    return "-" if rng.random() > p else str(rng.choice(choices))


def gen_value(rng, T, pool=None, small=True):
    if pool and rng.random() < 0.6:
        return rng.choice(pool)
    if T in ("ip", "nr"):
        L = rng.choice([0, 1, 4, 16, 40, 63, 64, 65, 66, 128, 300, 1000, 4096]) if not small else rng.choice([0, 1, 2])
        return xh(bytes(rng.randrange(4 if small else 256) for _ in range(L)))
    if T == "ct":
        return "%d.%d" % (rng.choice([0, 1, 28, 65535]), rng.choice([0, 1, 65535]))
    if T == "qq":
        return "%d.%d" % (rng.randrange(3), rng.randrange(3))
    if T in ("ql", "rl"):
        n = rng.choice([0, 1, 2, 5])
        return ".".join(str(rng.randrange(4)) for _ in range(n)) if n else "e"
    if T == "rr":
        return "%d.%d.%s.%s" % (rng.randrange(3), rng.randrange(3), opt(rng, [0, 1, 3600, 2**32 - 1]), opt(rng, [0, 1, 2]))
    if T == "qs":
        lims = [4, 65535, 63, 5, 63, 255, 32767, 65535, 4, 65535, 65535, 65535, 65535, 255, 65535, 4, 65535]
        return ".".join(opt(rng, [0, 1, lim], p=rng.choice([0.1, 0.5, 0.9])) for lim in lims)
    if T == "md":
        pl = "-" if rng.random() < 0.3 else xh(bytes(rng.randrange(3) for _ in range(rng.choice([0, 1, 2, 30] if small else [0, 1, 2, 30, 64, 65, 200, 1500]))))
        return "%s.%s.%s.%s" % (opt(rng, [0, 1, 2]), opt(rng, [0, 53, 65535]), opt(rng, [0, 1, 31]), pl)
    raise ValueError(T)


def toggle_one(rng, T, v):
    """a value differing from v in exactly one member (for the distinguishing pairs)"""
    if T in ("qs", "md", "rr", "ct", "qq"):
        p = v.split(".")
        i = rng.randrange(len(p))
        if p[i] == "-":
            p[i] = "x00" if (T == "md" and i == 3) else "0"
        elif T in ("qs", "md", "rr") and (T != "rr" or i >= 2) and rng.random() < 0.5:
            p[i] = "-"
        elif p[i].startswith("x"):
            p[i] = p[i] + "01"
        else:
            p[i] = str((int(p[i]) + 1) % 4)
        return ".".join(p)
    if T in ("ip", "nr"):
        return v + "00"
    if T in ("ql", "rl"):
        return "0" if v == "e" else v + ".0"
    return v


class RefBlock:
    def __init__(self):
        self.t = {T: [] for T in TABLES}
        self.q, self.m, self.a = [], [], {}      # items: client ports of Q/Rs and malformed messages; address-event type -> count
        self.cq = self.cm = 0                    # read cursors
        self.ca = False                          # address events read to the end
        self.st = None                           # block statistics (processed_messages) or absent

    def add(self, T, v):
        if v in self.t[T]:
            # equal values can be present several times (add_value, the reader's path): the table's reverse index
            # knows the one stored last
            return len(self.t[T]) - 1 - self.t[T][::-1].index(v)
        self.t[T].append(v)
        return len(self.t[T]) - 1

    def addv(self, T, v):
        self.t[T].append(v)
        return len(self.t[T]) - 1

    def get(self, T, i):
        return self.t[T][i] if i < len(self.t[T]) else "E"

    def copy(self):
        b = RefBlock()
        b.t = {k: list(v) for k, v in self.t.items()}
        b.q, b.m, b.a = list(self.q), list(self.m), dict(self.a)      # a copy starts reading at the beginning
        b.st = self.st                                                 # absent statistics are copied as absent
        return b

    def sig(self):
        return repr((sorted(self.t.items()), self.q, self.m, sorted(self.a.items()), self.st))


def run_ref(toks):
    """-> list of expected results (None = not compared)"""
    B = {}
    out = []
    for tok in toks:
        a = tok.split(":")
        op = a[0]
        try:
            if op == "new":
                B[int(a[1])] = RefBlock(); out.append("ok")
            elif op == "del":
                B.pop(int(a[1]), None); out.append("ok")
            elif op == "clr":
                b = B[int(a[1])]; b.t = {T: [] for T in TABLES}; b.q, b.m, b.a = [], [], {}; b.st = None; out.append("ok")
            elif op == "st":
                B[int(a[1])].st = a[2]; out.append("ok")
            elif op == "gs":
                out.append(B[int(a[1])].st or "none")
            elif op == "iq":
                B[int(a[1])].q.append(a[2]); out.append("ok")
            elif op == "im":
                B[int(a[1])].m.append(a[2]); out.append("ok")
            elif op == "ia":
                b = B[int(a[1])]; b.add("ip", "x7f000001"); b.a[int(a[2])] = b.a.get(int(a[2]), 0) + 1; out.append("ok")
            elif op == "rq":
                b = B[int(a[1])]
                if b.cq < len(b.q):
                    out.append(b.q[b.cq]); b.cq += 1
                else:
                    out.append("end")
            elif op == "rm":
                b = B[int(a[1])]
                if b.cm < len(b.m):
                    out.append(b.m[b.cm]); b.cm += 1
                else:
                    out.append("end")
            elif op == "RA":
                b = B[int(a[1])]
                out.append("-" if b.ca or not b.a else ",".join(sorted("%d*%d" % kv for kv in b.a.items()))); b.ca = True
            elif op == "cp":
                if a[1] == a[2]:
                    out.append("ok")             # x = x: nothing changes, the read cursors included
                else:
                    B[int(a[1])] = B[int(a[2])].copy(); out.append("ok")
            elif op == "w":
                out.append(("w", B[int(a[1])].sig()))
            elif op[0] == "a" or (op[0] == "r" and op[1:] == "md"):      # rmd: the same add through a re-used application object
                out.append(str(B[int(a[1])].add(op[1:], a[2])))
            elif op[0] == "v":
                out.append(str(B[int(a[1])].addv(op[1:], a[2])))
            elif op[0] == "g":
                out.append(B[int(a[1])].get(op[1:], int(a[2])))
            elif op[0] == "s":
                out.append(str(len(B[int(a[1])].t[op[1:]])))
        except KeyError:
            out.append("E")
    return out
