"""Core of the verification machinery: builds (translator, Lean library + driver, C++ harness
from /repo's working tree), obligation audit, parallel line-protocol runs with crash
recovery, verdict logic, evidence and replay files."""
import concurrent.futures as cf
import fcntl, glob, hashlib, json, os, random, re, shutil, subprocess, sys, tempfile, time

HERE = os.path.dirname(os.path.abspath(__file__))
VERIF = os.path.dirname(HERE)
REPO = os.environ.get("CDNS_REPO", "/repo")
LEAN = os.path.join(VERIF, "lean")
CACHE = os.path.join(VERIF, ".cache")
HARNESS_SRC = os.path.join(VERIF, "harness")
EVID = os.path.join(VERIF, "evidence")
REPLAY = os.path.join(VERIF, "replay")
NCPU = max(1, min(16, os.cpu_count() or 1))
ALLOWED_AXIOMS = {"propext", "Classical.choice", "Quot.sound"}

for d in (CACHE, EVID, REPLAY, os.path.join(CACHE, "tmp")):
    os.makedirs(d, exist_ok=True)

# scratch space of one check run: under /verif/.cache (never /tmp), removed when the process exits
import atexit
RUN_TMP = tempfile.mkdtemp(prefix="run%d-" % os.getpid(), dir=os.path.join(CACHE, "tmp"))
os.environ["VERIF_TMP"] = RUN_TMP
atexit.register(lambda: shutil.rmtree(RUN_TMP, ignore_errors=True))


def sh(cmd, **kw):
    return subprocess.run(cmd, stdout=subprocess.PIPE, stderr=subprocess.PIPE, text=True, errors="replace", **kw)


class Lock:
    def __init__(self, name):
        self.path = os.path.join(CACHE, name + ".lock")

    def __enter__(self):
        self.f = open(self.path, "w")
        fcntl.flock(self.f, fcntl.LOCK_EX)
        return self

    def __exit__(self, *a):
        fcntl.flock(self.f, fcntl.LOCK_UN)
        self.f.close()


def sha(*parts):
    h = hashlib.sha256()
    for p in parts:
        h.update(p if isinstance(p, bytes) else p.encode())
        h.update(b"\0")
    return h.hexdigest()


def read(path):
    with open(path, "rb") as f:
        return f.read()


# ----------------------------------------------------------------------------------------
# C++ harness build (from the working tree, per-object cache)
# ----------------------------------------------------------------------------------------
VARIANTS = {
    # alignment is excluded: hash.h reads its CRC32 input through uint64_t*/uint32_t* casts of byte pointers, which is
    # misaligned-load UB in ISO C++ but well defined on the only platform the library supports (it requires SSE4.2, i.e.
    # x86); no listed property speaks about it (recorded in DESIGN.md as an observation)
    "asan": ["-O1", "-g", "-fsanitize=address,undefined", "-fno-sanitize=alignment", "-fno-sanitize-recover=all",
             "-fno-omit-frame-pointer"],
    "tsan": ["-O1", "-g", "-fsanitize=thread", "-fno-omit-frame-pointer"],
    "plain": ["-O2", "-g"],
}
BASE_FLAGS = ["-std=gnu++14", "-msse4", "-DCDNS_VERIF", "-I", os.path.join(REPO, "src"), "-I", HARNESS_SRC,
              "-pthread"]
LINK_LIBS = ["-lz", "-llzma", "-ldl", "-pthread"]


class BuildError(Exception):
    pass


def _headers_hash():
    hs = sorted(glob.glob(os.path.join(REPO, "src", "*.h"))) + sorted(glob.glob(os.path.join(HARNESS_SRC, "*.h")))
    return sha(*[read(h) for h in hs])


def _compile_obj(src, flags, hh):
    key = sha(read(src), hh, " ".join(flags), os.path.basename(src))
    obj = os.path.join(CACHE, "obj", key + ".o")
    if os.path.exists(obj):
        return obj, None
    os.makedirs(os.path.dirname(obj), exist_ok=True)
    tmp = obj + ".tmp%d" % os.getpid()
    r = sh(["g++"] + flags + ["-c", src, "-o", tmp])
    if r.returncode != 0:
        return None, f"{src}:\n{r.stderr[-4000:]}"
    os.replace(tmp, obj)
    return obj, None


def build_harness(variant="asan", extra_link=()):
    """returns path of the harness executable built from /repo's current working tree"""
    if os.environ.get("VERIF_HARNESS_OVERRIDE"):        # development aid only (coverage measurement of the workloads, tools/coverage.sh)
        return os.environ["VERIF_HARNESS_OVERRIDE"]
    flags = BASE_FLAGS + VARIANTS[variant]
    hflags = flags + ["-fno-access-control"]
    with Lock("harness-" + variant):
        hh = _headers_hash()
        repo_srcs = sorted(glob.glob(os.path.join(REPO, "src", "*.cpp")))
        har_srcs = sorted(glob.glob(os.path.join(HARNESS_SRC, "*.cpp")))
        jobs = [(s, flags) for s in repo_srcs] + [(s, hflags) for s in har_srcs]
        objs, errs = [], []
        with cf.ThreadPoolExecutor(NCPU) as ex:
            for obj, err in ex.map(lambda j: _compile_obj(j[0], j[1], hh), jobs):
                if err:
                    errs.append(err)
                else:
                    objs.append(obj)
        if errs:
            raise BuildError("\n".join(errs))
        key = sha(*sorted(objs), variant, " ".join(extra_link))
        exe = os.path.join(CACHE, "bin", f"harness-{variant}-{key[:16]}")
        if not os.path.exists(exe):
            os.makedirs(os.path.dirname(exe), exist_ok=True)
            tmp = exe + ".tmp%d" % os.getpid()
            r = sh(["g++"] + VARIANTS[variant] + objs + ["-rdynamic"] + list(extra_link) + LINK_LIBS + ["-o", tmp])
            if r.returncode != 0:
                raise BuildError("link:\n" + r.stderr[-4000:])
            os.replace(tmp, exe)
            _prune(os.path.join(CACHE, "bin"), 12)
        _prune(os.path.join(CACHE, "obj"), 400)
        return exe


def _prune(d, keep):
    try:
        fs = sorted((os.path.join(d, f) for f in os.listdir(d)), key=os.path.getmtime)
    except FileNotFoundError:
        return
    for f in fs[:-keep]:
        try:
            os.remove(f)
        except OSError:
            pass


def build_cli_tools():
    """the five command-line tools built (with sanitizers) from the working tree"""
    if os.environ.get("VERIF_TOOLS_OVERRIDE"):          # development aid only (tools/coverage.sh)
        d = os.environ["VERIF_TOOLS_OVERRIDE"]
        return {n: os.path.join(d, n) for n in ("cdns-blocks", "cdns-items", "cdns-itemcount", "cdns-merge", "cdns-preamble")}
    flags = BASE_FLAGS + VARIANTS["asan"]
    with Lock("harness-asan"):
        hh = _headers_hash()
        repo_srcs = sorted(glob.glob(os.path.join(REPO, "src", "*.cpp")))
        tool_srcs = sorted(glob.glob(os.path.join(REPO, "src", "bin", "*.cpp")))
        jobs = [(s, flags) for s in repo_srcs + tool_srcs]
        res = {}
        errs = []
        with cf.ThreadPoolExecutor(NCPU) as ex:
            for (s, _), (obj, err) in zip(jobs, ex.map(lambda j: _compile_obj(j[0], j[1], hh), jobs)):
                if err:
                    errs.append(err)
                res[s] = obj
        if errs:
            raise BuildError("\n".join(errs))
        libobjs = [res[s] for s in repo_srcs]
        out = {}
        for t in tool_srcs:
            name = os.path.basename(t)[:-4].replace("_", "-")
            key = sha(*sorted(libobjs), res[t])
            exe = os.path.join(CACHE, "bin", f"{name}-{key[:16]}")
            if not os.path.exists(exe):
                os.makedirs(os.path.dirname(exe), exist_ok=True)
                r = sh(["g++"] + VARIANTS["asan"] + libobjs + [res[t]] + LINK_LIBS + ["-o", exe + ".tmp%d" % os.getpid()])
                if r.returncode != 0:
                    raise BuildError("link:\n" + r.stderr[-4000:])
                os.replace(exe + ".tmp%d" % os.getpid(), exe)
            out[name] = exe
        return out


# ----------------------------------------------------------------------------------------
# Lean: translator + build + audit
# ----------------------------------------------------------------------------------------
def strip_lean_comments(src):
    # nested block comments and line comments
    out, i, depth, n = [], 0, 0, len(src)
    while i < n:
        if src.startswith("/-", i):
            depth += 1; i += 2; continue
        if depth and src.startswith("-/", i):
            depth -= 1; i += 2; continue
        if depth:
            if src[i] == "\n":
                out.append("\n")
            i += 1; continue
        if src.startswith("--", i):
            while i < n and src[i] != "\n":
                i += 1
            continue
        out.append(src[i]); i += 1
    return "".join(out)


FORBIDDEN = re.compile(r"\bsorry\b|\badmit\b|^\s*axiom\s|native_decide|bv_decide|implemented_by|\bunsafe\s|maxHeartbeats\s+0\b|@\[extern", re.M)


def lean_hygiene():
    """grep the library (comment-stripped) for forbidden constructs"""
    hits = []
    for path in glob.glob(os.path.join(LEAN, "CdnsVerif", "**", "*.lean"), recursive=True) + [os.path.join(LEAN, "Main.lean")]:
        src = strip_lean_comments(open(path).read())
        for m in FORBIDDEN.finditer(src):
            line = src.count("\n", 0, m.start()) + 1
            hits.append(f"{os.path.relpath(path, LEAN)}:{line}: {m.group(0).strip()}")
    return hits


def run_translator():
    r = sh([sys.executable, os.path.join(HERE, "translate.py")])
    return r.returncode == 0, (r.stdout + r.stderr)[-4000:]


def lake_build(targets):
    with Lock("lake"):
        r = sh(["lake", "build"] + list(targets), cwd=LEAN)
    return r.returncode == 0, r.stdout + r.stderr


def theorem_names(prop):
    """property theorems = every `theorem` of Props/<prop>.lean (comment-stripped)"""
    path = os.path.join(LEAN, "CdnsVerif", "Props", prop + ".lean")
    src = strip_lean_comments(open(path).read())
    ns = re.search(r"^namespace\s+(\S+)", src, re.M)
    prefix = ns.group(1) + "." if ns else ""
    names = []
    for m in re.finditer(r"^(?:private\s+)?theorem\s+(\S+)", src, re.M):
        if "private" in m.group(0):
            continue
        names.append(prefix + m.group(1))
    return names


def audit_axioms(prop, names):
    """#print axioms for each property theorem -> {name: [axioms]}"""
    body = f"import CdnsVerif.Props.{prop}\n" + "".join(f"#print axioms {n}\n" for n in names)
    d = tempfile.mkdtemp(prefix="audit_", dir=CACHE)
    try:
        f = os.path.join(d, "Audit.lean")
        open(f, "w").write(body)
        r = sh(["lake", "env", "lean", f], cwd=LEAN)
        out = r.stdout + r.stderr
    finally:
        shutil.rmtree(d, ignore_errors=True)
    res = {}
    for m in re.finditer(r"'([^']+)' depends on axioms: \[([^\]]*)\]", out, re.S):
        res[m.group(1)] = [a.strip() for a in m.group(2).replace("\n", " ").split(",") if a.strip()]
    for m in re.finditer(r"'([^']+)' does not depend on any axioms", out):
        res[m.group(1)] = []
    return res, out


def driver_exe():
    return os.path.join(LEAN, ".lake", "build", "bin", "cdnsmodel")


# ----------------------------------------------------------------------------------------
# running line protocols
# ----------------------------------------------------------------------------------------
SAN_ENV = {
    "ASAN_OPTIONS": "detect_leaks=0:abort_on_error=0:allocator_may_return_null=0:max_allocation_size_mb=1024:detect_stack_use_after_return=0",
    "UBSAN_OPTIONS": "print_stacktrace=0:halt_on_error=1",
}


def _run_chunk(cmd, lines, env, timeout):
    """run one process over `lines`; on a crash mark the crashing line and continue after it"""
    outs = []
    start = 0
    guard = 0
    while start < len(lines):
        guard += 1
        data = "\n".join(lines[start:]) + "\n"
        try:
            p = subprocess.run(cmd, input=data, stdout=subprocess.PIPE, stderr=subprocess.PIPE, text=True, errors="replace",
                               env=env, timeout=timeout)
            got = p.stdout.split("\n")
            if got and got[-1] == "":
                got.pop()
            rc, err = p.returncode, p.stderr
        except subprocess.TimeoutExpired as e:
            so = e.stdout or ""
            if isinstance(so, bytes):
                so = so.decode(errors="replace")
            got = so.split("\n")
            if got:
                got.pop()  # possibly partial
            rc, err = -999, "TIMEOUT"
        need = len(lines) - start
        if len(got) >= need:
            outs.extend(got[:need])
            break
        outs.extend(got)
        # the line after the last answered one crashed the process
        summary = "signal/exit %s" % rc
        m = re.search(r"(SUMMARY: [^\n]+|runtime error: [^\n]+|ERROR: [^\n]+|TIMEOUT)", err or "")
        if m:
            summary = m.group(1)
        outs.append("CRASH " + summary[:300])
        start = len(outs)
        if guard > 200:
            outs.extend(["CRASH (too many crashes, not run)"] * (len(lines) - len(outs)))
            break
    return outs


def run_lines(cmd, lines, env=None, timeout=600, jobs=NCPU, min_chunk=64):
    """answers[i] for lines[i]; parallel over chunks"""
    if not lines:
        return []
    e = dict(os.environ)
    e.update(SAN_ENV)
    if env:
        e.update(env)
    n = len(lines)
    k = max(1, min(jobs, (n + min_chunk - 1) // min_chunk))
    size = (n + k - 1) // k
    chunks = [lines[i:i + size] for i in range(0, n, size)]
    with cf.ThreadPoolExecutor(len(chunks)) as ex:
        parts = list(ex.map(lambda c: _run_chunk(cmd, c, e, timeout), chunks))
    out = []
    for p in parts:
        out.extend(p)
    return out


# ----------------------------------------------------------------------------------------
# known findings
# ----------------------------------------------------------------------------------------
def load_known_findings(prop):
    path = os.path.join(VERIF, "known_findings.txt")
    res = []
    try:
        for line in open(path):
            line = line.strip()
            m = re.match(r"finding:\s+property=(\S+)\s+sig=(\S+)\s+(.*)", line)
            if m and m.group(1) == prop:
                res.append((m.group(2), m.group(3)))
    except FileNotFoundError:
        pass
    return res


# ----------------------------------------------------------------------------------------
# a check run
# ----------------------------------------------------------------------------------------
class Run:
    def __init__(self, prop, tier, seed):
        self.prop, self.tier, self.seed = prop, tier, seed
        self.rng = random.Random(f"{prop}-{seed}")
        self.t0 = time.time()
        self.obligations = []          # names
        self.discharged = []           # names
        self.broken = []               # (name, why)
        self.spec_fail = []            # (signature, case, detail)   impl violates the property
        self.model_fail = []           # (case, detail)              impl != model (correspondence)
        self.evaluations = 0
        self.distinct = set()
        self.samples = []
        self.dist = {}
        self.assumptions = []
        self.trusted = []
        self.extra = {}
        self.axioms = {}
        self.known_seen = []
        self.rule = ""
        self.exhaustive = False
        self.notes = []

    # -- bookkeeping ------------------------------------------------------------------
    def count(self, key, n=1):
        self.dist[key] = self.dist.get(key, 0) + n

    def case(self, canon, nontrivial=True, sample_every=0, key=None):
        self.evaluations += 1
        if nontrivial:
            self.distinct.add(hash(canon if key is None else key))
        if len(self.samples) < 6 or (sample_every and self.evaluations % sample_every == 0 and len(self.samples) < 12):
            self.samples.append(canon if len(str(canon)) < 400 else str(canon)[:400] + "…")

    def obligation(self, name, ok, why=""):
        self.obligations.append(name)
        if ok:
            self.discharged.append(name)
        else:
            self.broken.append((name, why))

    # -- Lean side ---------------------------------------------------------------------
    def lean(self, extra_targets=("cdnsmodel",)):
        """translator + build of Props.<prop> + driver; records obligations"""
        prop = self.prop
        ok_t, log_t = run_translator()
        self.obligation("translator:T1(constants from working tree)", ok_t, log_t[-1500:])
        hits = lean_hygiene()
        self.obligation("hygiene:no sorry/admit/axiom/native_decide/bv_decide/implemented_by/unsafe", not hits,
                        "; ".join(hits[:10]))
        ok_b, log_b = lake_build([f"CdnsVerif.Props.{prop}"])
        names = theorem_names(prop)
        if ok_b:
            ax, raw = audit_axioms(prop, names)
            self.axioms = ax
            for n in names:
                if n not in ax:
                    self.obligation("theorem:" + n, False, "not found by #print axioms: " + raw[-500:])
                else:
                    bad = [a for a in ax[n] if a not in ALLOWED_AXIOMS]
                    self.obligation("theorem:" + n, not bad, "depends on axioms " + ",".join(bad))
        else:
            errs = re.findall(r"error: ([^\n]*\.lean):(\d+):\d+: ([^\n]*)", log_b)
            self.build_errors = errs
            why = "; ".join(f"{f}:{l}: {m}" for f, l, m in errs[:6]) or log_b[-1500:]
            for n in names:
                self.obligation("theorem:" + n, False, "lake build CdnsVerif.Props.%s failed: %s" % (prop, why))
        self.lean_ok = ok_b and ok_t
        ok_d = True
        if extra_targets:
            ok_d, log_d = lake_build(list(extra_targets))
            if not ok_d:
                self.obligation("driver:cdnsmodel builds", False, log_d[-1500:])
        self.driver_ok = ok_d
        if self.tier == "thorough" and ok_b:
            with Lock("lake"):
                r = sh(["lake", "env", "leanchecker", f"CdnsVerif.Props.{prop}"], cwd=LEAN)
            self.obligation("leanchecker:CdnsVerif.Props." + prop, r.returncode == 0, (r.stdout + r.stderr)[-800:])
        return self.lean_ok

    # -- verdict -----------------------------------------------------------------------
    def finish(self, level="proof", checker_cmd=None):
        prop = self.prop
        known = load_known_findings(prop)
        violations = 0
        lines = []
        # (a) property violations with a concrete input
        new_spec = []
        for sig, case, detail in self.spec_fail:
            k = [t for (s, t) in known if s == sig]
            if k:
                if sig not in self.known_seen:
                    self.known_seen.append(sig)
                    lines.append(f"KNOWN-FINDING: property={prop} sig={sig} {k[0]}")
            else:
                new_spec.append((sig, case, detail))
        ts = time.strftime("%Y%m%d-%H%M%S")
        if new_spec:
            path = os.path.join(REPLAY, f"{prop}-{ts}-{os.getpid()}.json")
            json.dump({"property": prop, "kind": "property-violated-on-implementation", "seed": self.seed,
                       "tier": self.tier,
                       "failures": [{"signature": s, "case": c, "detail": d} for s, c, d in new_spec[:20]],
                       "broken_obligations": self.broken[:20],
                       "correspondence_breaks": [{"case": c, "detail": d} for c, d in self.model_fail[:10]]},
                      open(path, "w"), indent=1)
            lines.append(f"VIOLATION property={prop} replay={path}")
            violations = len(new_spec)
        elif self.broken or self.model_fail:
            path = os.path.join(REPLAY, f"{prop}-{ts}-{os.getpid()}.json")
            json.dump({"property": prop, "kind": "proof-obligation-or-correspondence-broken", "seed": self.seed,
                       "tier": self.tier,
                       "note": "no input was found on which the property itself fails on the implementation; "
                               "the property is no longer shown to hold",
                       "broken_obligations": [{"name": n, "why": w} for n, w in self.broken[:40]],
                       "correspondence_breaks": [{"case": c, "detail": d} for c, d in self.model_fail[:20]]},
                      open(path, "w"), indent=1)
            lines.append(f"VIOLATION property={prop} replay={path} no-failing-input-found")
            violations = len(self.broken) + len(self.model_fail)
        cov = {
            "obligations": len(self.obligations),
            "discharged": len(self.discharged),
            "checker_cmd": checker_cmd or f"cd lean && lake build CdnsVerif.Props.{prop} && lake env lean <#print axioms of every theorem in Props/{prop}.lean>" + ("; lake env leanchecker CdnsVerif.Props.%s" % prop if self.tier == "thorough" else ""),
            "trusted_base": ["Lean 4.33.0 kernel", "axioms used: " + (", ".join(sorted({a for v in self.axioms.values() for a in v})) or "none")] + self.trusted,
            "obligation_names": self.obligations,
            "axioms_per_theorem": self.axioms,
            "evaluations": self.evaluations,
            "distinct_nontrivial": len(self.distinct),
            "rule": self.rule,
            "samples": self.samples[:12] or ["(no correspondence cases in this run)"],
            "distribution": self.dist,
            "exhaustive": self.exhaustive,
            "correspondence_breaks": len(self.model_fail),
            "property_failures_on_impl": len(self.spec_fail),
            "known_findings_seen": self.known_seen,
        }
        cov.update(self.extra)
        ev = {"property_id": prop, "tier": self.tier, "seed": self.seed, "level": level, "coverage": cov,
              "assumptions": self.assumptions, "wall_s": round(time.time() - self.t0, 2), "violations": violations}
        if self.notes:
            ev["notes"] = self.notes
        tmp = os.path.join(EVID, prop + ".json.tmp%d" % os.getpid())
        json.dump(ev, open(tmp, "w"), indent=1, default=str)
        os.replace(tmp, os.path.join(EVID, prop + ".json"))
        for l in lines:
            print(l)
        print(f"{prop} tier={self.tier} seed={self.seed} obligations={len(self.discharged)}/{len(self.obligations)} "
              f"cases={self.evaluations} distinct={len(self.distinct)} spec_fail={len(self.spec_fail)} "
              f"model_fail={len(self.model_fail)} wall={ev['wall_s']}s")
        sys.stdout.flush()
        return 1 if violations else 0
