#!/usr/bin/env python3
"""MANIFEST.setup_cmd: build everything that can be built once (offline): translator output, Lean library,
driver executable, the sanitizer harness from /repo's working tree."""
import os, sys
sys.path.insert(0, os.path.dirname(os.path.abspath(__file__)))
import vlib
ok, log = vlib.run_translator()
print("translator:", "ok" if ok else "FAILED\n" + log)
ok2, log2 = vlib.lake_build(["CdnsVerif", "cdnsmodel"])
print("lake build:", "ok" if ok2 else "FAILED\n" + log2[-4000:])
try:
    print("harness:", vlib.build_harness("asan"))
    print("harness (tsan):", vlib.build_harness("tsan"))
    print("cli tools:", sorted(vlib.build_cli_tools()))
    ok3 = True
except vlib.BuildError as e:
    print("harness FAILED\n", e)
    ok3 = False
sys.exit(0 if (ok and ok2 and ok3) else 1)
