"""files as OTHER C-DNS writers may produce them (all legal RFC 8618, none of which the library's own exporter emits):
block tables holding the same value twice, with the references spread over both copies."""
import copy
import cborgen


def _key(n):
    if n.major == 0:
        return n.arg
    if n.major == 1:
        return -1 - n.arg
    return None


def mget(m, key):
    if m is None or m.major != 5:
        return None
    ch = m.children
    for i in range(0, len(ch) - 1, 2):
        if _key(ch[i]) == key:
            return ch[i + 1]
    return None


def _repoint(node, old, new, rng):
    """an index member holding `old` is switched to `new` with probability 1/2"""
    if node is not None and node.major == 0 and node.arg == old and rng.random() < 0.5:
        node.arg = new
        node.width = None
        return 1
    return 0


def dup_table_entries(data, rng):
    """-> (bytes, number of duplicated entries) ; the denotation (records after index resolution) is unchanged"""
    top, _ = cborgen.parse(data)
    if top.major != 4 or len(top.children) != 3:
        return data, 0
    ndup = 0
    for blk in top.children[2].children:
        tables = mget(blk, 2)
        if tables is None:
            continue
        qrs = mget(blk, 3); aecs = mget(blk, 4); mms = mget(blk, 5)
        sig = mget(tables, 3); qrr = mget(tables, 5); rr = mget(tables, 7); mmd = mget(tables, 8)
        for tkey in (0, 2):
            arr = mget(tables, tkey)
            if arr is None or not arr.children or rng.random() < 0.3:
                continue
            j = rng.randrange(len(arr.children))
            n = len(arr.children)
            arr.children.append(copy.deepcopy(arr.children[j]))
            ndup += 1
            def each(a):
                return a.children if a is not None else []
            if tkey == 0:
                for q in each(qrs):
                    _repoint(mget(q, 1), j, n, rng)
                for s in each(sig):
                    _repoint(mget(s, 0), j, n, rng)
                for a in each(aecs):
                    _repoint(mget(a, 2), j, n, rng)
                for m in each(mms):
                    _repoint(mget(m, 1), j, n, rng)
                for d in each(mmd):
                    _repoint(mget(d, 0), j, n, rng)
            else:
                for q in each(qrs):
                    _repoint(mget(q, 7), j, n, rng)
                    _repoint(mget(mget(q, 10), 0), j, n, rng)
                for s in each(sig):
                    _repoint(mget(s, 15), j, n, rng)
                for e in each(qrr):
                    _repoint(mget(e, 0), j, n, rng)
                for e in each(rr):
                    _repoint(mget(e, 0), j, n, rng)
                    _repoint(mget(e, 3), j, n, rng)
    if not ndup:
        return data, 0
    return cborgen.encode(top), ndup


def repeat_address_events(data, rng, same_count=False):
    """-> (bytes, number of added items): a non-aggregating writer reports one address event key in several items of a block,
    each with its own count (all of them items of the block: RFC 8618 does not make the key unique)"""
    top, _ = cborgen.parse(data)
    if top.major != 4 or len(top.children) != 3:
        return data, 0
    added = 0
    for blk in top.children[2].children:
        aecs = mget(blk, 4)
        if aecs is None or not aecs.children or aecs.indef:
            continue
        for j in range(len(aecs.children)):
            if rng.random() < 0.5:
                continue
            item = copy.deepcopy(aecs.children[j])
            cnt = mget(item, 4)
            if cnt is None or cnt.major != 0:
                continue
            if not same_count:
                cnt.arg = cnt.arg + rng.randrange(1, 6)
                cnt.width = None
            aecs.children.append(item)
            added += 1
        aecs.arg = len(aecs.children)
        aecs.width = None
    if not added:
        return data, 0
    return cborgen.encode(top), added


def drop_block_parameters_index(data, rng):
    """-> (bytes, number of blocks changed): blocks that use parameter set 0 may omit the optional block-parameters-index"""
    top, _ = cborgen.parse(data)
    if top.major != 4 or len(top.children) != 3:
        return data, 0
    n = 0
    for blk in top.children[2].children:
        pre = mget(blk, 0)
        if pre is None or pre.indef:
            continue
        ch = pre.children
        for i in range(0, len(ch) - 1, 2):
            if _key(ch[i]) == 1 and ch[i + 1].major == 0 and ch[i + 1].arg == 0:
                del ch[i:i + 2]
                pre.arg = len(ch) // 2
                pre.width = None
                n += 1
                break
    if not n:
        return data, 0
    return cborgen.encode(top), n


def _node_uint(v):
    n = cborgen.Node(0); n.arg = v; n.width = None
    return n


def insert_empty_blocks(data, rng):
    """-> (bytes, number inserted): blocks that hold a preamble and nothing else (legal; the library's exporter never writes one)"""
    top, _ = cborgen.parse(data)
    if top.major != 4 or len(top.children) != 3 or not top.children[2].children:
        return data, 0
    blocks = top.children[2].children
    empty, _ = cborgen.parse(bytes.fromhex("a100a20082000001" + "00"))
    n = 0
    for _ in range(rng.randrange(1, 3)):
        blocks.insert(rng.randrange(len(blocks) + 1), copy.deepcopy(empty))
        n += 1
    return cborgen.encode(top), n


def twin_tick_rate(data, rng):
    """-> bytes or None: the same file with another ticks-per-second in its first parameter set (everything else equal)"""
    top, _ = cborgen.parse(data)
    if top.major != 4 or len(top.children) != 3:
        return None
    bps = mget(top.children[1], 3)
    if bps is None or not bps.children:
        return None
    tps = mget(mget(bps.children[0], 0), 0)
    if tps is None or tps.major != 0:
        return None
    tps.arg = {1000000: 1000000000, 1000000000: 1000, 1000: 1000000}.get(tps.arg, 1000000 if tps.arg != 1000000 else 1000)
    tps.width = None
    return cborgen.encode(top)


def twin_collection(data, rng):
    """-> bytes or None: the same file whose first parameter set gains or loses its collection parameters"""
    top, _ = cborgen.parse(data)
    if top.major != 4 or len(top.children) != 3:
        return None
    bps = mget(top.children[1], 3)
    if bps is None or not bps.children or bps.children[0].major != 5 or bps.children[0].indef:
        return None
    bp = bps.children[0]
    ch = bp.children
    for i in range(0, len(ch) - 1, 2):
        if _key(ch[i]) == 1:
            del ch[i:i + 2]
            return cborgen.encode(top)
    coll, _ = cborgen.parse(bytes.fromhex("a109" + "64686f7374"))      # {host_id: "host"}
    ch += [_node_uint(1), coll]
    return cborgen.encode(top)
